#!/bin/bash
# run every registered quick (or $1=thorough) check on the current tree; summary lines to stdout
tier=${1:-quick}
for p in $(python3 -c "import json;print(' '.join(c['property_id'] for c in json.load(open('/verif/MANIFEST.json'))['checks']))"); do
  t0=$(date +%s)
  out=$(cd /verif && timeout 7200 /verif/bin/vcheck run $p --tier $tier 2>&1)
  rc=$?
  echo "$p rc=$rc $(( $(date +%s)-t0 ))s | $(echo "$out" | grep -a "tier=" | tail -1 | cut -c1-160)"
  echo "$out" | grep -a "^VIOLATION\|^INCONCLUSIVE" | head -5
done
