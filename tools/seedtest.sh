#!/bin/bash
# usage: seedtest.sh <Cxx> <worktree> <mutdir> <name> <demo-pkg-relpath> [vcheck extra args]
# 1. in the scratch worktree: demo passes clean, patch applies, pinned tests of buildable packages pass, demo fails
# 2. copies patch/demo/meta into /verif/seeded/<name>/
# 3. applies the patch to /repo, runs the property's quick check, reverts
set -u
export GOFLAGS=-mod=mod GOPROXY=off GOSUMDB=off GOTOOLCHAIN=local
P=$1; WT=$2; MD=$3; NAME=$4; PKG=$5; shift 5
OUT=/verif/seeded/$NAME
mkdir -p $OUT
cd $WT && git checkout -q -- . && git clean -fdq -e SEEDED
cp $MD/demo_test.go $WT/$PKG/zz_seeded_demo_test.go
TAGS=""
if ! go vet -vet=off ./$PKG >/dev/null 2>&1; then :; fi
clean=$(go test -vet=off -count=1 -run TestSeeded ./$PKG 2>&1 | tail -1)
case "$clean" in ok*) ;; *) TAGS="-tags verif"; clean=$(go test $TAGS -vet=off -count=1 -run TestSeeded ./$PKG 2>&1 | tail -1);; esac
git apply $MD/patch.diff || { echo "PATCH DOES NOT APPLY"; exit 3; }
mut=$(go test $TAGS -vet=off -count=1 -run TestSeeded ./$PKG 2>&1 | tail -1)
rm -f $WT/$PKG/zz_seeded_demo_test.go
suite=$(go test -vet=off -count=1 ./pkg/buffer ./pkg/tmutex ./pkg/waiter ./protocol/header ./protocol/network/fragmentation ./protocol/ports ./protocol/transport/tcpconntrack 2>&1 | grep -c "^ok")
build=$(go build -tags verif ./... 2>&1 | grep -v "^#" | grep -vc "c_net\|cmd/" )
git checkout -q -- . 
echo "demo clean: $clean | demo mutated: $mut | pinned pkgs ok: $suite/7"
cp $MD/patch.diff $OUT/patch.diff; cp $MD/demo_test.go $OUT/demo_test.go; cp $MD/notes.txt $OUT/notes.txt 2>/dev/null
# run the check against /repo with the patch applied
R=${SEED_REPO:-/repo}   # SEED_REPO=<worktree>: check a scratch tree instead of /repo (lets several seeds run in parallel)
cd $R && git apply $OUT/patch.diff || { echo "PATCH DOES NOT APPLY TO $R"; exit 3; }
t0=$(date +%s)
res=$(cd /verif && VERIF_REPO=$R VERIF_EVIDENCE_DIR=/tmp/verif-seed-evidence-$P VERIF_OUT_DIR=/tmp/verif-seed-out-$$ VERIF_NO_TV=1 timeout 1500 /verif/bin/vcheck run $P "$@" 2>&1 | grep -a "VIOLATION\|^C[0-9]* tier\|INCONCLUSIVE" | head -6)
rc=$?
t1=$(date +%s)
git -C $R checkout -q -- .
echo "$res"
det=no; echo "$res" | grep -q "^VIOLATION" && det=yes
python3 - <<PY
import json
json.dump({"property":"$P","name":"$NAME","demo_pkg":"$PKG","demo_on_clean_tree":"""$clean""","demo_with_patch":"""$mut""","pinned_packages_ok_with_patch":"$suite/7",
 "check_cmd":"/verif/bin/vcheck run $P $*","detected":"$det"=="yes","check_output":"""$res""".splitlines(),"check_seconds":$t1-$t0}, open("$OUT/meta.json","w"), indent=1)
PY
echo "=> $NAME detected=$det ($((t1-t0))s)"
