#!/bin/bash
# For every "fixed" entry of known_findings.json: reverse-apply the fix commit to /repo's working
# tree, run the registered quick check of its property (evidence redirected), expect exit 1 with a
# VIOLATION line, then restore the tree. Shows that a fixed entry suppresses nothing.
set -u
export VERIF_EVIDENCE_DIR=/tmp/verif-seed-evidence VERIF_NO_TV=1
mkdir -p $VERIF_EVIDENCE_DIR
python3 - <<'P' > /tmp/fixlist.$$
import json
for f in json.load(open('/verif/known_findings.json'))['findings']:
    if f['status']=='fixed': print(f['id'],f['property'],f['commit'])
P
rc_all=0
while read id prop commit; do
  if ! git -C /repo diff --quiet; then echo "/repo working tree not clean"; exit 2; fi
  git -C /repo diff $commit^ $commit | git -C /repo apply -R || { echo "$id: cannot reverse-apply $commit"; rc_all=1; continue; }
  t0=$(date +%s)
  out=$(cd /verif && timeout 1800 /verif/bin/vcheck run $prop --tier quick 2>&1); rc=$?
  git -C /repo checkout -- .
  n=$(echo "$out" | grep -ac "^VIOLATION property=$prop")
  echo "$id $prop $commit reverted: rc=$rc violations=$n $(( $(date +%s)-t0 ))s"
  echo "$out" | grep -a "^VIOLATION" | head -3
  [ $rc -eq 1 ] && [ $n -ge 1 ] || rc_all=1
done < /tmp/fixlist.$$
rm -f /tmp/fixlist.$$
exit $rc_all
