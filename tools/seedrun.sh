#!/bin/bash
# usage: seedrun.sh [name-prefix]   -- re-run the property check against every kept seeded change
# and refresh detected/check_output in its meta.json
# SEED_REPO=<worktree of /repo HEAD>: use that tree instead of /repo (several prefixes can run in parallel)
R=${SEED_REPO:-/repo}
cd /verif/seeded
for d in ${1:-}*/; do
  n=${d%/}; p=$(python3 -c "import json;print(json.load(open('/verif/seeded/$n/meta.json'))['property'])")
  git -C $R apply /verif/seeded/$n/patch.diff || { echo "$n: patch does not apply"; continue; }
  t0=$(date +%s)
  (cd /verif && VERIF_REPO=$R VERIF_EVIDENCE_DIR=/tmp/verif-seed-evidence-$p VERIF_OUT_DIR=/tmp/verif-seed-out-$$ VERIF_NO_TV=1 timeout 1800 /verif/bin/vcheck run $p 2>&1 | grep -a "^VIOLATION" > /tmp/seedrun.$$.$n)
  git -C $R checkout -q -- .
  python3 - "$n" /tmp/seedrun.$$.$n $(( $(date +%s)-t0 )) <<'P'
import json,sys
n,f,secs=sys.argv[1],sys.argv[2],int(sys.argv[3])
lines=[l.strip() for l in open(f) if l.strip()]
p='/verif/seeded/%s/meta.json'%n
m=json.load(open(p)); m['detected']=len(lines)>0; m['check_output']=lines[:6]; m['check_seconds']=secs
json.dump(m,open(p,'w'),indent=1)
print('%s: violations=%d (%ds)'%(n,len(lines),secs))
P
  rm -f /tmp/seedrun.$$.$n
done
