#!/bin/bash
# usage: seedrun.sh [name-prefix]   -- re-run the property check against every kept seeded change
cd /verif/seeded
for d in ${1:-}*/; do
  n=${d%/}; p=$(python3 -c "import json;print(json.load(open('/verif/seeded/$n/meta.json'))['property'])")
  git -C /repo apply /verif/seeded/$n/patch.diff || { echo "$n: patch does not apply"; continue; }
  out=$(cd /verif && VERIF_EVIDENCE_DIR=/tmp/verif-seed-evidence VERIF_NO_TV=1 timeout 1500 /verif/bin/vcheck run $p 2>&1 | grep -ac "^VIOLATION")
  git -C /repo checkout -q -- .
  echo "$n: violations=$out"
done
