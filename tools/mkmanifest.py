#!/usr/bin/env python3
"""Regenerate /verif/MANIFEST.json from /verif/spec/*.json (each spec carries a "manifest" block)."""
import json, glob, os, subprocess
V = '/verif'
props = [json.loads(l) for l in open(f'{V}/properties.jsonl')]
ids = [p['id'] for p in props]
specs = {}
for f in sorted(glob.glob(f'{V}/spec/C*.json')):
    s = json.load(open(f))
    if s.get('manifest'):
        specs[s['property']] = s
na_reasons = json.load(open(f'{V}/spec/not_applicable.json')) if os.path.exists(f'{V}/spec/not_applicable.json') else {}
hooks = json.load(open(f'{V}/spec/hooks.json')) if os.path.exists(f'{V}/spec/hooks.json') else {"source_commits": []}
baseline = json.load(open('/root/.vp/BASELINE.json'))['cmd']
checks = []
for i in ids:
    if i not in specs:
        continue
    s = specs[i]; m = s['manifest']
    checks.append({
        "property_id": i,
        "quick_cmd": f"/verif/bin/vcheck run {i} --tier quick",
        "thorough_cmd": f"/verif/bin/vcheck run {i} --tier thorough",
        "evidence_file": f"/verif/evidence/{i}.json",
        "replay_cmd_template": "/verif/bin/vcheck replay {path}",
        "engine": "gosmt",
        "level_claimed": {"category": s.get('level', 'model_checking'), "text": m['text'], "design_ref": m.get('design_ref', 'DESIGN.md section 9 ' + i)},
        "level_note": m['note'],
        "technique": m.get('technique', 'SSA symbolic execution of the real functions + SMT (z3/cvc5), bounded'),
    })
man = {
    "version": 1,
    "setup_cmd": "cd /verif/engine && GOFLAGS=-mod=mod GOPROXY=off GOSUMDB=off GOTOOLCHAIN=local go build -o /verif/bin/vcheck ./cmd/vcheck",
    "hooks": {"guard": "verif", "enable": "build tag verif: native counterexample replay runs go test -tags verif; the C19 check loads pkg/sleep with -tags verif so that the Go commitSleep of hook H1 is the encoded body; every other check reads the untagged source",
              "baseline_off_cmd": baseline, "source_commits": hooks.get("source_commits", []), "add_only": True},
    "engines": [{"name": "gosmt", "path": "/verif/engine", "serves_properties": [c['property_id'] for c in checks],
                 "kind_free_text": "own Go-SSA (x/tools go/ssa v0.29.0) -> SMT-LIB2 symbolic executor; harnesses injected by packages.Config.Overlay; z3 5.1.0/4.8.12 and cvc5 1.0 back ends; counterexamples replayed natively with go test -overlay"}],
    "checks": checks,
    "notes": "Every check is decided by SMT queries over the symbolic execution of the real functions (SSA regenerated from /repo's working tree on every run). Exit 0 = all obligations discharged at the registered bound; exit 1 + VIOLATION = a counterexample that reproduces natively; exit 2 = inconclusive (unknown/timeout/unsupported construct/harness no longer type-checks) and is never reported as success. KNOWN-FINDING lines are listed in /verif/known_findings.json.",
    "not_applicable": [{"property_id": i, "reason": na_reasons.get(i, "check not yet built (framework under construction); will be decided by SSA symbolic execution + SMT per DESIGN.md section 9")} for i in ids if i not in specs],
}
json.dump(man, open(f'{V}/MANIFEST.json', 'w'), indent=1)
print(len(checks), 'checks;', len(man['not_applicable']), 'not applicable')
