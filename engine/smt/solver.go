package smt

import (
	"bufio"
	"fmt"
	"io"
	"os"
	"os/exec"
	"strconv"
	"strings"
	"sync"
	"time"
)

var debugIO = os.Getenv("VERIF_DEBUGIO") != ""

type Result int

const (
	Unsat Result = iota
	Sat
	Unknown
)

func (r Result) String() string { return [...]string{"unsat", "sat", "unknown"}[r] }

// Solver is a long-lived `z3 -in` (or cvc5 --incremental) process.
type Solver struct {
	Kind      string // "z3", "z3-new", "cvc5", "cvc5-int"
	cmd       *exec.Cmd
	in        io.WriteCloser
	out       *bufio.Reader
	mu        sync.Mutex
	Queries   int
	NSat      int
	NUnsat    int
	NUnk      int
	Time      time.Duration
	Errors    []string
	TimeoutMs int
	Log       io.Writer // optional: every script sent
}

func solverArgv(kind string) []string {
	switch kind {
	case "z3":
		return []string{"z3", "-in"}
	case "z3-new":
		return []string{"z3-new", "-in"}
	case "cvc5":
		return []string{"cvc5", "--incremental", "--lang=smt2", "--produce-models"}
	case "cvc5-int":
		return []string{"cvc5", "--incremental", "--lang=smt2", "--produce-models", "--solve-bv-as-int=sum"}
	}
	return []string{kind}
}

func NewSolver(kind string, timeoutMs int) (*Solver, error) {
	s := &Solver{Kind: kind, TimeoutMs: timeoutMs}
	if err := s.start(); err != nil {
		return nil, err
	}
	return s, nil
}

func (s *Solver) start() error {
	argv := solverArgv(s.Kind)
	s.cmd = exec.Command(argv[0], argv[1:]...)
	in, err := s.cmd.StdinPipe()
	if err != nil {
		return err
	}
	out, err := s.cmd.StdoutPipe()
	if err != nil {
		return err
	}
	s.cmd.Stderr = s.cmd.Stdout
	s.in = in
	s.out = bufio.NewReaderSize(out, 1<<16)
	if err := s.cmd.Start(); err != nil {
		return err
	}
	if strings.HasPrefix(s.Kind, "z3") {
		fmt.Fprintf(s.in, "(set-option :timeout %d)\n", s.TimeoutMs)
	} else {
		fmt.Fprintf(s.in, "(set-option :tlimit-per %d)\n(set-logic ALL)\n", s.TimeoutMs)
	}
	return nil
}

func (s *Solver) Close() {
	if s.cmd != nil {
		s.in.Close()
		s.cmd.Process.Kill()
		s.cmd.Wait()
		s.cmd = nil
	}
}

func (s *Solver) restart() {
	s.Close()
	s.start()
}

// readLine reads one line with a wall-clock deadline; on expiry the solver is restarted.
func (s *Solver) readLine(deadline time.Duration) (string, bool) {
	type res struct {
		l   string
		err error
	}
	ch := make(chan res, 1)
	rd := s.out
	go func() {
		l, err := rd.ReadString('\n')
		ch <- res{l, err}
	}()
	select {
	case r := <-ch:
		if r.err != nil {
			return "", false
		}
		if debugIO {
			fmt.Fprintf(os.Stderr, "<< %s", r.l)
		}
		return strings.TrimSpace(r.l), true
	case <-time.After(deadline):
		return "", false
	}
}

// Check asks whether the conjunction of asserts is satisfiable. If want is non-empty
// and the answer is sat, the values of those terms are returned (by index).
func (s *Solver) Check(b *B, asserts []*Term, want []*Term, raw []string) (Result, []uint64) {
	s.mu.Lock()
	defer s.mu.Unlock()
	t0 := time.Now()
	defer func() { s.Time += time.Since(t0); s.Queries++ }()
	roots := append(append([]*Term{}, asserts...), want...)
	script, names := b.Script(roots)
	var sb strings.Builder
	sb.WriteString("(push 1)\n")
	sb.WriteString(script)
	for i := range asserts {
		sb.WriteString("(assert " + names[i] + ")\n")
	}
	for _, r := range raw {
		sb.WriteString("(assert " + r + ")\n")
	}
	sb.WriteString("(check-sat)\n")
	if s.Log != nil {
		io.WriteString(s.Log, sb.String())
	}
	if debugIO {
		fmt.Fprintf(os.Stderr, ">> query %d bytes, %d asserts\n", sb.Len(), len(asserts))
	}
	if _, err := io.WriteString(s.in, sb.String()); err != nil {
		s.Errors = append(s.Errors, "write: "+err.Error())
		s.restart()
		s.NUnk++
		return Unknown, nil
	}
	wall := time.Duration(s.TimeoutMs)*time.Millisecond*2 + 5*time.Second
	var res Result = Unknown
	got := false
	for !got {
		l, ok := s.readLine(wall)
		if !ok {
			s.Errors = append(s.Errors, "solver hung or died; restarted")
			s.restart()
			s.NUnk++
			return Unknown, nil
		}
		switch {
		case l == "sat":
			res, got = Sat, true
		case l == "unsat":
			res, got = Unsat, true
		case l == "unknown" || l == "timeout":
			res, got = Unknown, true
		case strings.HasPrefix(l, "(error"):
			s.Errors = append(s.Errors, l)
			s.restart()
			s.NUnk++
			return Unknown, nil
		case l == "":
		default:
			// unexpected noise
			s.Errors = append(s.Errors, "unexpected: "+l)
		}
	}
	var vals []uint64
	if res == Sat && len(want) > 0 {
		var q strings.Builder
		q.WriteString("(get-value (")
		for i := range want {
			q.WriteString(names[len(asserts)+i] + " ")
		}
		q.WriteString("))\n")
		io.WriteString(s.in, q.String())
		if s.Log != nil {
			io.WriteString(s.Log, q.String())
		}
		if debugIO {
			fmt.Fprintf(os.Stderr, ">> %s", q.String())
		}
		// read balanced s-expression
		txt, ok := s.readSexp(wall)
		if !ok {
			s.Errors = append(s.Errors, "get-value failed")
			s.restart()
			s.NUnk++
			return Unknown, nil
		}
		vals = parseValues(txt, len(want))
		if vals == nil {
			s.Errors = append(s.Errors, "get-value parse: "+txt)
			res = Unknown
		}
	}
	io.WriteString(s.in, "(pop 1)\n")
	if s.Log != nil {
		io.WriteString(s.Log, "(pop 1)\n")
	}
	switch res {
	case Sat:
		s.NSat++
	case Unsat:
		s.NUnsat++
	default:
		s.NUnk++
	}
	return res, vals
}

func (s *Solver) readSexp(wall time.Duration) (string, bool) {
	depth := 0
	started := false
	var sb strings.Builder
	for {
		l, ok := s.readLine(wall)
		if !ok {
			return "", false
		}
		sb.WriteString(l + " ")
		inBar := false
		for _, c := range l {
			switch {
			case c == '|':
				inBar = !inBar
			case inBar:
			case c == '(':
				depth++
				started = true
			case c == ')':
				depth--
			}
		}
		if started && depth <= 0 {
			return sb.String(), true
		}
	}
}

// parseValues extracts, in order, the value literals of a get-value answer
// "((name val) (name val) ...)". Names never contain '#', "true" or "false" as separate tokens
// except inside |..| quoting, which is skipped.
func parseValues(txt string, n int) []uint64 {
	var vals []uint64
	i := 0
	depth := 0
	for i < len(txt) {
		c := txt[i]
		switch {
		case c == '|':
			j := strings.IndexByte(txt[i+1:], '|')
			if j < 0 {
				return nil
			}
			i += j + 2
			continue
		case c == '(':
			depth++
		case c == ')':
			depth--
		case c == '#' && depth == 2:
			j := i + 2
			for j < len(txt) && txt[j] != ')' && txt[j] != ' ' {
				j++
			}
			base := 16
			if txt[i+1] == 'b' {
				base = 2
			}
			v, err := strconv.ParseUint(txt[i+2:j], base, 64)
			if err != nil {
				return nil
			}
			vals = append(vals, v)
			i = j
			continue
		case depth == 2 && strings.HasPrefix(txt[i:], "true") && (txt[i-1] == ' '):
			vals = append(vals, 1)
			i += 4
			continue
		case depth == 2 && strings.HasPrefix(txt[i:], "false") && (txt[i-1] == ' '):
			vals = append(vals, 0)
			i += 5
			continue
		}
		i++
	}
	if len(vals) != n {
		return nil
	}
	return vals
}

// OneShot runs a solver on a full script (no incremental mode), used for cross-checks and
// for cvc5 --solve-bv-as-int, which is not compatible with incremental solving of arrays.
func OneShot(kind string, b *B, asserts []*Term, timeoutMs int) (Result, string) {
	script, names := b.Script(asserts)
	var sb strings.Builder
	if !strings.HasPrefix(kind, "z3") {
		sb.WriteString("(set-logic ALL)\n")
	}
	sb.WriteString(script)
	for i := range asserts {
		sb.WriteString("(assert " + names[i] + ")\n")
	}
	sb.WriteString("(check-sat)\n")
	var argv []string
	switch kind {
	case "z3":
		argv = []string{"z3", "-in", fmt.Sprintf("-t:%d", timeoutMs)}
	case "z3-new":
		argv = []string{"z3-new", "-in", fmt.Sprintf("-t:%d", timeoutMs)}
	case "cvc5":
		argv = []string{"cvc5", "--lang=smt2", fmt.Sprintf("--tlimit=%d", timeoutMs)}
	case "cvc5-int":
		argv = []string{"cvc5", "--lang=smt2", "--solve-bv-as-int=sum", fmt.Sprintf("--tlimit=%d", timeoutMs)}
	}
	cmd := exec.Command(argv[0], argv[1:]...)
	cmd.Stdin = strings.NewReader(sb.String())
	done := make(chan struct{})
	var out []byte
	go func() { out, _ = cmd.CombinedOutput(); close(done) }()
	select {
	case <-done:
	case <-time.After(time.Duration(timeoutMs)*time.Millisecond + 10*time.Second):
		if cmd.Process != nil {
			cmd.Process.Kill()
		}
		<-done
		return Unknown, "wall timeout"
	}
	txt := strings.TrimSpace(string(out))
	if strings.Contains(txt, "(error") {
		return Unknown, txt
	}
	for _, l := range strings.Split(txt, "\n") {
		switch strings.TrimSpace(l) {
		case "sat":
			return Sat, txt
		case "unsat":
			return Unsat, txt
		}
	}
	return Unknown, txt
}

// OneShotScript builds the complete SMT-LIB text of a one-shot query (with get-value for want).
func OneShotScript(kind string, b *B, asserts []*Term, want []*Term) string {
	roots := append(append([]*Term{}, asserts...), want...)
	script, names := b.Script(roots)
	var sb strings.Builder
	if !strings.HasPrefix(kind, "z3") {
		sb.WriteString("(set-option :produce-models true)\n(set-logic ALL)\n")
	}
	sb.WriteString(script)
	for i := range asserts {
		sb.WriteString("(assert " + names[i] + ")\n")
	}
	sb.WriteString("(check-sat)\n")
	if len(want) > 0 {
		sb.WriteString("(get-value (")
		for i := range want {
			sb.WriteString(names[len(asserts)+i] + " ")
		}
		sb.WriteString("))\n")
	}
	return sb.String()
}

// OneShotValues is OneShot with model values for want (on sat).
func OneShotValues(kind string, b *B, asserts []*Term, want []*Term, timeoutMs int) (Result, []uint64, string) {
	return RunScript(kind, OneShotScript(kind, b, asserts, want), len(want), timeoutMs)
}

// RunScript runs a prepared one-shot script (safe to call from several goroutines).
func RunScript(kind string, script string, nwant int, timeoutMs int) (Result, []uint64, string) {
	var argv []string
	switch kind {
	case "z3":
		argv = []string{"z3", "-in", fmt.Sprintf("-t:%d", timeoutMs)}
	case "z3-new":
		argv = []string{"z3-new", "-in", fmt.Sprintf("-t:%d", timeoutMs)}
	case "cvc5":
		argv = []string{"cvc5", "--lang=smt2", fmt.Sprintf("--tlimit=%d", timeoutMs)}
	case "cvc5-int":
		argv = []string{"cvc5", "--lang=smt2", "--solve-bv-as-int=sum", fmt.Sprintf("--tlimit=%d", timeoutMs)}
	default:
		return Unknown, nil, "unknown solver kind " + kind
	}
	cmd := exec.Command(argv[0], argv[1:]...)
	cmd.Stdin = strings.NewReader(script)
	done := make(chan struct{})
	var out []byte
	go func() { out, _ = cmd.CombinedOutput(); close(done) }()
	select {
	case <-done:
	case <-time.After(time.Duration(timeoutMs)*time.Millisecond + 10*time.Second):
		if cmd.Process != nil {
			cmd.Process.Kill()
		}
		<-done
		return Unknown, nil, "wall timeout"
	}
	txt := strings.TrimSpace(string(out))
	lines := strings.Split(txt, "\n")
	verdict := strings.TrimSpace(lines[0])
	switch verdict {
	case "unsat":
		// the verdict is the first output line, so no assertion was rejected before it (an
		// error would have been printed first); get-value after unsat prints an error, ignored
		return Unsat, nil, txt
	case "sat":
		if nwant == 0 {
			return Sat, nil, txt
		}
		rest := strings.Join(lines[1:], " ")
		if strings.Contains(rest, "(error") {
			return Unknown, nil, txt
		}
		vals := parseValues(rest, nwant)
		if vals == nil {
			return Unknown, nil, "get-value parse: " + txt
		}
		return Sat, vals, txt
	}
	return Unknown, nil, txt
}
