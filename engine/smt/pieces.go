package smt

// Bit-slice normal form used to recognise byte-reassembly idioms such as
// uint32(b0)<<24 | uint32(b1)<<16 | uint32(b2)<<8 | uint32(b3) where the b_i are extracts of
// one 32-bit term (binary.BigEndian.PutUint32 followed by Uint32): the OR of terms with
// disjoint non-zero bit ranges is rebuilt as a concatenation and adjacent extracts of the
// same source are merged, so the round trip folds back to the source term.

type piece struct {
	src    *Term // nil: zeros
	hi, lo int   // bits of src
}

func (p piece) width() int { return p.hi - p.lo + 1 }

// piecesOf returns the MSB-first decomposition of t, or nil if t has no useful structure.
func (b *B) piecesOf(t *Term, depth int) []piece {
	if depth > 6 {
		return []piece{{t, t.W - 1, 0}}
	}
	switch t.Op {
	case OpConst:
		if t.Val == 0 {
			return []piece{{nil, t.W - 1, 0}}
		}
	case OpZExt:
		return append([]piece{{nil, t.Hi - 1, 0}}, b.piecesOf(t.Args[0], depth+1)...)
	case OpConcat:
		return append(b.piecesOf(t.Args[0], depth+1), b.piecesOf(t.Args[1], depth+1)...)
	case OpExtract:
		return []piece{{t.Args[0], t.Hi, t.Lo}}
	case OpShl:
		if t.Args[1].IsConst() && t.Args[1].Val < uint64(t.W) {
			k := int(t.Args[1].Val)
			ps := dropTop(b.piecesOf(t.Args[0], depth+1), k)
			if k > 0 {
				ps = append(ps, piece{nil, k - 1, 0})
			}
			return ps
		}
	case OpLShr:
		if t.Args[1].IsConst() && t.Args[1].Val < uint64(t.W) {
			k := int(t.Args[1].Val)
			ps := dropBottom(b.piecesOf(t.Args[0], depth+1), k)
			if k > 0 {
				ps = append([]piece{{nil, k - 1, 0}}, ps...)
			}
			return ps
		}
	}
	return []piece{{t, t.W - 1, 0}}
}

func dropTop(ps []piece, k int) []piece {
	for k > 0 && len(ps) > 0 {
		w := ps[0].width()
		if w <= k {
			k -= w
			ps = ps[1:]
			continue
		}
		p := ps[0]
		p.hi -= k
		ps = append([]piece{p}, ps[1:]...)
		k = 0
	}
	return ps
}

func dropBottom(ps []piece, k int) []piece {
	for k > 0 && len(ps) > 0 {
		last := ps[len(ps)-1]
		w := last.width()
		if w <= k {
			k -= w
			ps = ps[:len(ps)-1]
			continue
		}
		last.lo += k
		ps = append(append([]piece{}, ps[:len(ps)-1]...), last)
		k = 0
	}
	return ps
}

// orPieces tries to express x|y as a concatenation; nil if the non-zero ranges overlap or
// nothing is gained.
func (b *B) orPieces(x, y *Term) *Term {
	px, py := b.piecesOf(x, 0), b.piecesOf(y, 0)
	hasZero := func(ps []piece) bool {
		for _, p := range ps {
			if p.src == nil {
				return true
			}
		}
		return false
	}
	if !hasZero(px) || !hasZero(py) {
		return nil
	}
	var out []piece
	for len(px) > 0 && len(py) > 0 {
		wx, wy := px[0].width(), py[0].width()
		w := wx
		if wy < w {
			w = wy
		}
		a, c := px[0], py[0]
		ta := piece{a.src, a.hi, a.hi - w + 1}
		tc := piece{c.src, c.hi, c.hi - w + 1}
		switch {
		case ta.src == nil:
			out = append(out, tc)
		case tc.src == nil:
			out = append(out, ta)
		default:
			return nil
		}
		if wx == w {
			px = px[1:]
		} else {
			px[0] = piece{a.src, a.hi - w, a.lo}
		}
		if wy == w {
			py = py[1:]
		} else {
			py[0] = piece{c.src, c.hi - w, c.lo}
		}
	}
	if len(px) != 0 || len(py) != 0 {
		return nil
	}
	// merge adjacent pieces
	var m []piece
	for _, p := range out {
		if n := len(m); n > 0 {
			q := &m[n-1]
			if q.src == nil && p.src == nil {
				q.hi += p.width()
				continue
			}
			if q.src != nil && q.src == p.src && q.lo == p.hi+1 {
				q.lo = p.lo
				continue
			}
		}
		m = append(m, p)
	}
	var r *Term
	for _, p := range m {
		var t *Term
		if p.src == nil {
			t = b.Const(0, p.width())
		} else {
			t = b.Extract(p.src, p.hi, p.lo)
		}
		if r == nil {
			r = t
		} else {
			r = b.Concat(r, t)
		}
	}
	return r
}
