// Package smt is a small hash-consed bit-vector / bool term DAG with constant
// folding, an SMT-LIB2 printer and a driver for long-lived solver processes.
package smt

import (
	"fmt"
	"math/bits"
	"sort"
	"strings"
)

type Op uint8

const (
	OpConst Op = iota
	OpVar
	OpNot
	OpAnd
	OpOr
	OpIte
	OpEq
	OpAdd
	OpSub
	OpMul
	OpUDiv
	OpURem
	OpSDiv
	OpSRem
	OpBAnd
	OpBOr
	OpBXor
	OpBNot
	OpNeg
	OpShl
	OpLShr
	OpAShr
	OpULT
	OpULE
	OpSLT
	OpSLE
	OpConcat
	OpExtract
	OpZExt
	OpSExt
	OpUF
)

var opName = map[Op]string{
	OpNot: "not", OpAnd: "and", OpOr: "or", OpIte: "ite", OpEq: "=",
	OpAdd: "bvadd", OpSub: "bvsub", OpMul: "bvmul", OpUDiv: "bvudiv", OpURem: "bvurem",
	OpSDiv: "bvsdiv", OpSRem: "bvsrem", OpBAnd: "bvand", OpBOr: "bvor", OpBXor: "bvxor",
	OpBNot: "bvnot", OpNeg: "bvneg", OpShl: "bvshl", OpLShr: "bvlshr", OpAShr: "bvashr",
	OpULT: "bvult", OpULE: "bvule", OpSLT: "bvslt", OpSLE: "bvsle", OpConcat: "concat",
}

// Term is an immutable DAG node. W == 0 means Bool, otherwise a bit-vector of width W (1..64).
type Term struct {
	ID   int
	Op   Op
	W    int
	Args []*Term
	Val  uint64 // OpConst (bool: 0/1)
	Name string // OpVar, OpUF
	Hi   int    // OpExtract hi; OpZExt/OpSExt: extra bits
	Lo   int    // OpExtract lo
}

func (t *Term) IsConst() bool { return t.Op == OpConst }
func (t *Term) IsBool() bool  { return t.W == 0 }
func (t *Term) IsTrue() bool  { return t.Op == OpConst && t.W == 0 && t.Val == 1 }
func (t *Term) IsFalse() bool { return t.Op == OpConst && t.W == 0 && t.Val == 0 }

// B is a term builder (one per obligation; not safe for concurrent use).
type B struct {
	tab   map[string]*Term
	next  int
	Vars  []*Term          // declaration order
	UFs   map[string][]int // name -> arg widths + result width (last)
	UFApp []*Term          // all UF applications created
}

func NewB() *B { return &B{tab: map[string]*Term{}, UFs: map[string][]int{}} }

func mask(w int) uint64 {
	if w >= 64 {
		return ^uint64(0)
	}
	return (uint64(1) << uint(w)) - 1
}

func sx(v uint64, w int) int64 {
	if w >= 64 {
		return int64(v)
	}
	if v&(1<<uint(w-1)) != 0 {
		return int64(v | ^mask(w))
	}
	return int64(v)
}

func (b *B) mk(t Term) *Term {
	var sb strings.Builder
	fmt.Fprintf(&sb, "%d|%d|%d|%s|%d|%d", t.Op, t.W, t.Val, t.Name, t.Hi, t.Lo)
	for _, a := range t.Args {
		fmt.Fprintf(&sb, "|%d", a.ID)
	}
	k := sb.String()
	if x, ok := b.tab[k]; ok {
		return x
	}
	b.next++
	t.ID = b.next
	p := new(Term)
	*p = t
	b.tab[k] = p
	return p
}

func (b *B) Const(v uint64, w int) *Term { return b.mk(Term{Op: OpConst, W: w, Val: v & mask(w)}) }
func (b *B) Bool(v bool) *Term {
	if v {
		return b.mk(Term{Op: OpConst, W: 0, Val: 1})
	}
	return b.mk(Term{Op: OpConst, W: 0, Val: 0})
}
func (b *B) True() *Term  { return b.Bool(true) }
func (b *B) False() *Term { return b.Bool(false) }

// Var creates (or returns) a named variable. w==0: Bool.
func (b *B) Var(name string, w int) *Term {
	n0 := b.next
	t := b.mk(Term{Op: OpVar, W: w, Name: name})
	if b.next != n0 {
		b.Vars = append(b.Vars, t)
	}
	return t
}

// UF applies an uninterpreted function name : args -> BV(w).
func (b *B) UF(name string, w int, args ...*Term) *Term {
	sig := make([]int, 0, len(args)+1)
	for _, a := range args {
		sig = append(sig, a.W)
	}
	sig = append(sig, w)
	if old, ok := b.UFs[name]; ok {
		if fmt.Sprint(old) != fmt.Sprint(sig) {
			panic("smt: UF " + name + " used with two signatures")
		}
	} else {
		b.UFs[name] = sig
	}
	n0 := b.next
	t := b.mk(Term{Op: OpUF, W: w, Name: name, Args: args})
	if b.next != n0 {
		b.UFApp = append(b.UFApp, t)
	}
	return t
}

func (b *B) Not(x *Term) *Term {
	if x.W != 0 {
		panic("smt: Not on non-bool")
	}
	if x.IsConst() {
		return b.Bool(x.Val == 0)
	}
	if x.Op == OpNot {
		return x.Args[0]
	}
	return b.mk(Term{Op: OpNot, Args: []*Term{x}})
}

func (b *B) And(xs ...*Term) *Term {
	var out []*Term
	seen := map[int]bool{}
	for _, x := range xs {
		if x.W != 0 {
			panic("smt: And on non-bool")
		}
		if x.IsFalse() {
			return x
		}
		if x.IsTrue() || seen[x.ID] {
			continue
		}
		seen[x.ID] = true
		if x.Op == OpAnd {
			for _, y := range x.Args {
				if !seen[y.ID] {
					seen[y.ID] = true
					out = append(out, y)
				}
			}
			continue
		}
		out = append(out, x)
	}
	for _, x := range out {
		if x.Op == OpNot && seen[x.Args[0].ID] {
			return b.False()
		}
	}
	if len(out) == 0 {
		return b.True()
	}
	if len(out) == 1 {
		return out[0]
	}
	return b.mk(Term{Op: OpAnd, Args: out})
}

func (b *B) Or(xs ...*Term) *Term {
	var out []*Term
	seen := map[int]bool{}
	for _, x := range xs {
		if x.W != 0 {
			panic("smt: Or on non-bool")
		}
		if x.IsTrue() {
			return x
		}
		if x.IsFalse() || seen[x.ID] {
			continue
		}
		seen[x.ID] = true
		if x.Op == OpOr {
			for _, y := range x.Args {
				if !seen[y.ID] {
					seen[y.ID] = true
					out = append(out, y)
				}
			}
			continue
		}
		out = append(out, x)
	}
	for _, x := range out {
		if x.Op == OpNot && seen[x.Args[0].ID] {
			return b.True()
		}
	}
	if len(out) == 0 {
		return b.False()
	}
	if len(out) == 1 {
		return out[0]
	}
	return b.mk(Term{Op: OpOr, Args: out})
}

func (b *B) Implies(x, y *Term) *Term { return b.Or(b.Not(x), y) }

func (b *B) Ite(c, x, y *Term) *Term {
	if c.W != 0 || x.W != y.W {
		panic(fmt.Sprintf("smt: Ite sorts c=%d x=%d y=%d", c.W, x.W, y.W))
	}
	if c.IsConst() {
		if c.Val == 1 {
			return x
		}
		return y
	}
	if x == y {
		return x
	}
	if x.W == 0 {
		if x.IsTrue() && y.IsFalse() {
			return c
		}
		if x.IsFalse() && y.IsTrue() {
			return b.Not(c)
		}
		if x.IsTrue() {
			return b.Or(c, y)
		}
		if x.IsFalse() {
			return b.And(b.Not(c), y)
		}
		if y.IsTrue() {
			return b.Or(b.Not(c), x)
		}
		if y.IsFalse() {
			return b.And(c, x)
		}
	}
	return b.mk(Term{Op: OpIte, W: x.W, Args: []*Term{c, x, y}})
}

func (b *B) Eq(x, y *Term) *Term {
	if x.W != y.W {
		panic(fmt.Sprintf("smt: Eq widths %d %d", x.W, y.W))
	}
	if x == y {
		return b.True()
	}
	if x.IsConst() && y.IsConst() {
		return b.Bool(x.Val == y.Val)
	}
	if x.W == 0 {
		if x.IsConst() {
			x, y = y, x
		}
		if y.IsTrue() {
			return x
		}
		if y.IsFalse() {
			return b.Not(x)
		}
	}
	if x.ID > y.ID {
		x, y = y, x
	}
	// ite(c, k1, k2) == k  with constants
	if y.IsConst() && x.Op == OpIte && x.Args[1].IsConst() && x.Args[2].IsConst() {
		return b.Ite(x.Args[0], b.Bool(x.Args[1].Val == y.Val), b.Bool(x.Args[2].Val == y.Val))
	}
	if x.IsConst() && y.Op == OpIte && y.Args[1].IsConst() && y.Args[2].IsConst() {
		return b.Ite(y.Args[0], b.Bool(y.Args[1].Val == x.Val), b.Bool(y.Args[2].Val == x.Val))
	}
	return b.mk(Term{Op: OpEq, Args: []*Term{x, y}})
}

func (b *B) bin(op Op, x, y *Term) *Term {
	if x.W != y.W || x.W == 0 {
		panic(fmt.Sprintf("smt: binop %s widths %d %d", opName[op], x.W, y.W))
	}
	w := x.W
	if x.IsConst() && y.IsConst() {
		a, c := x.Val, y.Val
		var r uint64
		switch op {
		case OpAdd:
			r = a + c
		case OpSub:
			r = a - c
		case OpMul:
			r = a * c
		case OpUDiv:
			if c == 0 {
				r = mask(w)
			} else {
				r = a / c
			}
		case OpURem:
			if c == 0 {
				r = a
			} else {
				r = a % c
			}
		case OpSDiv:
			sa, sc := sx(a, w), sx(c, w)
			if sc == 0 {
				if sa < 0 {
					r = 1
				} else {
					r = mask(w)
				}
			} else if sc == -1 {
				r = uint64(-sa)
			} else {
				r = uint64(sa / sc)
			}
		case OpSRem:
			sa, sc := sx(a, w), sx(c, w)
			if sc == 0 {
				r = a
			} else if sc == -1 {
				r = 0
			} else {
				r = uint64(sa % sc)
			}
		case OpBAnd:
			r = a & c
		case OpBOr:
			r = a | c
		case OpBXor:
			r = a ^ c
		case OpShl:
			if c >= uint64(w) {
				r = 0
			} else {
				r = a << c
			}
		case OpLShr:
			if c >= uint64(w) {
				r = 0
			} else {
				r = a >> c
			}
		case OpAShr:
			sa := sx(a, w)
			if c >= uint64(w) {
				c = uint64(w - 1)
			}
			if c >= 64 {
				c = 63
			}
			r = uint64(sa >> c)
		}
		return b.Const(r, w)
	}
	switch op {
	case OpAdd:
		if x.IsConst() && x.Val == 0 {
			return y
		}
		if y.IsConst() && y.Val == 0 {
			return x
		}
		if x.IsConst() { // canonical: const on the right
			x, y = y, x
		}
		// (a + k1) + k2
		if y.IsConst() && x.Op == OpAdd && x.Args[1].IsConst() {
			return b.bin(OpAdd, x.Args[0], b.Const(x.Args[1].Val+y.Val, w))
		}
		// (a + k1) + c  /  a + (c + k2): float the constant outwards
		if !y.IsConst() && x.Op == OpAdd && x.Args[1].IsConst() {
			return b.bin(OpAdd, b.bin(OpAdd, x.Args[0], y), x.Args[1])
		}
		if !x.IsConst() && y.Op == OpAdd && y.Args[1].IsConst() {
			return b.bin(OpAdd, b.bin(OpAdd, x, y.Args[0]), y.Args[1])
		}
	case OpSub:
		if y.IsConst() && y.Val == 0 {
			return x
		}
		if x == y {
			return b.Const(0, w)
		}
		if y.IsConst() {
			return b.bin(OpAdd, x, b.Const(-y.Val, w))
		}
		// (a + k) - a = k
		if x.Op == OpAdd && x.Args[0] == y {
			return x.Args[1]
		}
		// a - (a + k) = -k
		if y.Op == OpAdd && y.Args[0] == x {
			return b.Neg(y.Args[1])
		}
		// (a + k1) - (a + k2) = k1 - k2
		if x.Op == OpAdd && y.Op == OpAdd && x.Args[0] == y.Args[0] {
			return b.bin(OpSub, x.Args[1], y.Args[1])
		}
		// (a + k) - b  with constant k: (a - b) + k  (exposes a-b cancellations)
		if x.Op == OpAdd && x.Args[1].IsConst() && y.Op == OpAdd && y.Args[1].IsConst() {
			return b.bin(OpAdd, b.bin(OpSub, x.Args[0], y.Args[0]), b.Const(x.Args[1].Val-y.Args[1].Val, w))
		}
	case OpMul:
		if x.IsConst() {
			x, y = y, x
		}
		if y.IsConst() {
			if y.Val == 0 {
				return y
			}
			if y.Val == 1 {
				return x
			}
			if bits.OnesCount64(y.Val) == 1 {
				return b.bin(OpShl, x, b.Const(uint64(bits.TrailingZeros64(y.Val)), w))
			}
		}
	case OpBAnd:
		if x == y {
			return x
		}
		if x.IsConst() {
			x, y = y, x
		}
		if y.IsConst() {
			if y.Val == 0 {
				return y
			}
			if y.Val == mask(w) {
				return x
			}
		}
	case OpBOr:
		if x == y {
			return x
		}
		if x.IsConst() {
			x, y = y, x
		}
		if y.IsConst() {
			if y.Val == 0 {
				return x
			}
			if y.Val == mask(w) {
				return y
			}
		}
		if r := b.orPieces(x, y); r != nil && r.W == w {
			return r
		}
	case OpBXor:
		if x == y {
			return b.Const(0, w)
		}
		if x.IsConst() {
			x, y = y, x
		}
		if y.IsConst() && y.Val == 0 {
			return x
		}
	case OpShl, OpLShr, OpAShr:
		if y.IsConst() && y.Val == 0 {
			return x
		}
		if x.IsConst() && x.Val == 0 {
			return x
		}
		if y.IsConst() && y.Val >= uint64(w) && op != OpAShr {
			return b.Const(0, w)
		}
		// (zext x) >> k and (concat ..) handled by solver
	case OpUDiv:
		if y.IsConst() && y.Val == 1 {
			return x
		}
	}
	return b.mk(Term{Op: op, W: w, Args: []*Term{x, y}})
}

func (b *B) Add(x, y *Term) *Term  { return b.bin(OpAdd, x, y) }
func (b *B) Sub(x, y *Term) *Term  { return b.bin(OpSub, x, y) }
func (b *B) Mul(x, y *Term) *Term  { return b.bin(OpMul, x, y) }
func (b *B) UDiv(x, y *Term) *Term { return b.bin(OpUDiv, x, y) }
func (b *B) URem(x, y *Term) *Term { return b.bin(OpURem, x, y) }
func (b *B) SDiv(x, y *Term) *Term { return b.bin(OpSDiv, x, y) }
func (b *B) SRem(x, y *Term) *Term { return b.bin(OpSRem, x, y) }
func (b *B) BAnd(x, y *Term) *Term { return b.bin(OpBAnd, x, y) }
func (b *B) BOr(x, y *Term) *Term  { return b.bin(OpBOr, x, y) }
func (b *B) BXor(x, y *Term) *Term { return b.bin(OpBXor, x, y) }
func (b *B) Shl(x, y *Term) *Term  { return b.bin(OpShl, x, y) }
func (b *B) LShr(x, y *Term) *Term { return b.bin(OpLShr, x, y) }
func (b *B) AShr(x, y *Term) *Term { return b.bin(OpAShr, x, y) }

func (b *B) BNot(x *Term) *Term {
	if x.IsConst() {
		return b.Const(^x.Val, x.W)
	}
	if x.Op == OpBNot {
		return x.Args[0]
	}
	return b.mk(Term{Op: OpBNot, W: x.W, Args: []*Term{x}})
}

func (b *B) Neg(x *Term) *Term {
	if x.IsConst() {
		return b.Const(-x.Val, x.W)
	}
	return b.mk(Term{Op: OpNeg, W: x.W, Args: []*Term{x}})
}

func (b *B) cmp(op Op, x, y *Term) *Term {
	if x.W != y.W || x.W == 0 {
		panic(fmt.Sprintf("smt: cmp %s widths %d %d", opName[op], x.W, y.W))
	}
	if x.IsConst() && y.IsConst() {
		switch op {
		case OpULT:
			return b.Bool(x.Val < y.Val)
		case OpULE:
			return b.Bool(x.Val <= y.Val)
		case OpSLT:
			return b.Bool(sx(x.Val, x.W) < sx(y.Val, y.W))
		case OpSLE:
			return b.Bool(sx(x.Val, x.W) <= sx(y.Val, y.W))
		}
	}
	if x == y {
		return b.Bool(op == OpULE || op == OpSLE)
	}
	switch op {
	case OpULT:
		if y.IsConst() && y.Val == 0 {
			return b.False()
		}
		if x.IsConst() && x.Val == mask(x.W) {
			return b.False()
		}
	case OpULE:
		if x.IsConst() && x.Val == 0 {
			return b.True()
		}
		if y.IsConst() && y.Val == mask(x.W) {
			return b.True()
		}
	}
	// zext(a) <u const  where const exceeds range of a
	if (op == OpULT || op == OpULE) && y.IsConst() && x.Op == OpZExt {
		inner := x.Args[0]
		if y.Val > mask(inner.W) {
			return b.True()
		}
		return b.cmp(op, inner, b.Const(y.Val, inner.W))
	}
	if (op == OpSLT || op == OpSLE) && y.IsConst() && x.Op == OpZExt && sx(y.Val, y.W) >= 0 {
		inner := x.Args[0]
		if y.Val > mask(inner.W) {
			return b.True()
		}
		if op == OpSLT {
			return b.cmp(OpULT, inner, b.Const(y.Val, inner.W))
		}
		return b.cmp(OpULE, inner, b.Const(y.Val, inner.W))
	}
	if (op == OpSLT || op == OpSLE) && x.IsConst() && y.Op == OpZExt && sx(x.Val, x.W) < 0 {
		return b.True()
	}
	return b.mk(Term{Op: op, W: 0, Args: []*Term{x, y}})
}

func (b *B) ULT(x, y *Term) *Term { return b.cmp(OpULT, x, y) }
func (b *B) ULE(x, y *Term) *Term { return b.cmp(OpULE, x, y) }
func (b *B) SLT(x, y *Term) *Term { return b.cmp(OpSLT, x, y) }
func (b *B) SLE(x, y *Term) *Term { return b.cmp(OpSLE, x, y) }

func (b *B) Extract(x *Term, hi, lo int) *Term {
	if hi < lo || hi >= x.W {
		panic(fmt.Sprintf("smt: extract [%d:%d] of width %d", hi, lo, x.W))
	}
	if lo == 0 && hi == x.W-1 {
		return x
	}
	w := hi - lo + 1
	if x.IsConst() {
		return b.Const(x.Val>>uint(lo), w)
	}
	if (x.Op == OpZExt || x.Op == OpSExt) && hi < x.Args[0].W {
		return b.Extract(x.Args[0], hi, lo)
	}
	if x.Op == OpZExt && lo >= x.Args[0].W {
		return b.Const(0, w)
	}
	if x.Op == OpExtract {
		return b.Extract(x.Args[0], hi+x.Lo, lo+x.Lo)
	}
	if x.Op == OpConcat {
		lw := x.Args[1].W
		if hi < lw {
			return b.Extract(x.Args[1], hi, lo)
		}
		if lo >= lw {
			return b.Extract(x.Args[0], hi-lw, lo-lw)
		}
	}
	// byte(x >> k): a slice of x
	if x.Op == OpLShr && x.Args[1].IsConst() && hi+int(x.Args[1].Val) < x.W {
		k := int(x.Args[1].Val)
		return b.Extract(x.Args[0], hi+k, lo+k)
	}
	if x.Op == OpShl && x.Args[1].IsConst() && lo >= int(x.Args[1].Val) && x.Args[1].Val < uint64(x.W) {
		k := int(x.Args[1].Val)
		return b.Extract(x.Args[0], hi-k, lo-k)
	}
	// truncation distributes over bitwise operators and ite (not over +,-,*: keeping the wide
	// arithmetic term lets byte-wise re-assembly fold back to it)
	if lo == 0 {
		switch x.Op {
		case OpBAnd, OpBOr, OpBXor:
			return b.bin(x.Op, b.Extract(x.Args[0], hi, 0), b.Extract(x.Args[1], hi, 0))
		case OpBNot:
			return b.BNot(b.Extract(x.Args[0], hi, 0))
		case OpIte:
			return b.Ite(x.Args[0], b.Extract(x.Args[1], hi, 0), b.Extract(x.Args[2], hi, 0))
		}
	}
	return b.mk(Term{Op: OpExtract, W: w, Args: []*Term{x}, Hi: hi, Lo: lo})
}

func (b *B) ZExt(x *Term, w int) *Term {
	if w == x.W {
		return x
	}
	if w < x.W {
		panic("smt: zext to smaller width")
	}
	if x.IsConst() {
		return b.Const(x.Val, w)
	}
	if x.Op == OpZExt {
		return b.ZExt(x.Args[0], w)
	}
	return b.mk(Term{Op: OpZExt, W: w, Args: []*Term{x}, Hi: w - x.W})
}

func (b *B) SExt(x *Term, w int) *Term {
	if w == x.W {
		return x
	}
	if w < x.W {
		panic("smt: sext to smaller width")
	}
	if x.IsConst() {
		return b.Const(uint64(sx(x.Val, x.W)), w)
	}
	if x.Op == OpZExt {
		return b.ZExt(x.Args[0], w)
	}
	return b.mk(Term{Op: OpSExt, W: w, Args: []*Term{x}, Hi: w - x.W})
}

func (b *B) Concat(hi, lo *Term) *Term {
	if hi.IsConst() && lo.IsConst() {
		return b.Const(hi.Val<<uint(lo.W)|lo.Val, hi.W+lo.W)
	}
	if hi.IsConst() && hi.Val == 0 {
		return b.ZExt(lo, hi.W+lo.W)
	}
	return b.mk(Term{Op: OpConcat, W: hi.W + lo.W, Args: []*Term{hi, lo}})
}

// Resize converts x to width w, zero- or sign-extending or truncating.
func (b *B) Resize(x *Term, w int, signed bool) *Term {
	switch {
	case w == x.W:
		return x
	case w < x.W:
		return b.Extract(x, w-1, 0)
	case signed:
		return b.SExt(x, w)
	default:
		return b.ZExt(x, w)
	}
}

// ---------------------------------------------------------------------------
// Printing

func sortStr(w int) string {
	if w == 0 {
		return "Bool"
	}
	return fmt.Sprintf("(_ BitVec %d)", w)
}

func constStr(t *Term) string {
	if t.W == 0 {
		if t.Val == 1 {
			return "true"
		}
		return "false"
	}
	if t.W%4 == 0 {
		return fmt.Sprintf("#x%0*x", t.W/4, t.Val)
	}
	return fmt.Sprintf("#b%0*b", t.W, t.Val)
}

func symName(n string) string { return "|" + strings.ReplaceAll(n, "|", "!") + "|" }

// Script renders declarations + definitions for the DAG under roots, returning the
// text and, for each root, the expression that names it.
func (b *B) Script(roots []*Term) (string, []string) {
	var order []*Term
	seen := map[int]bool{}
	var visit func(t *Term)
	visit = func(t *Term) {
		if seen[t.ID] {
			return
		}
		seen[t.ID] = true
		for _, a := range t.Args {
			visit(a)
		}
		order = append(order, t)
	}
	for _, r := range roots {
		visit(r)
	}
	var sb strings.Builder
	ufDone := map[string]bool{}
	var ufNames []string
	for _, t := range order {
		if t.Op == OpUF && !ufDone[t.Name] {
			ufDone[t.Name] = true
			ufNames = append(ufNames, t.Name)
		}
	}
	sort.Strings(ufNames)
	for _, n := range ufNames {
		sig := b.UFs[n]
		sb.WriteString("(declare-fun " + symName(n) + " (")
		for i := 0; i < len(sig)-1; i++ {
			sb.WriteString(sortStr(sig[i]) + " ")
		}
		sb.WriteString(") " + sortStr(sig[len(sig)-1]) + ")\n")
	}
	ref := func(t *Term) string {
		switch t.Op {
		case OpConst:
			return constStr(t)
		case OpVar:
			return symName(t.Name)
		}
		return fmt.Sprintf("t%d", t.ID)
	}
	for _, t := range order {
		switch t.Op {
		case OpConst:
			continue
		case OpVar:
			sb.WriteString("(declare-fun " + symName(t.Name) + " () " + sortStr(t.W) + ")\n")
			continue
		}
		sb.WriteString(fmt.Sprintf("(define-fun t%d () %s ", t.ID, sortStr(t.W)))
		switch t.Op {
		case OpExtract:
			sb.WriteString(fmt.Sprintf("((_ extract %d %d) %s)", t.Hi, t.Lo, ref(t.Args[0])))
		case OpZExt:
			sb.WriteString(fmt.Sprintf("((_ zero_extend %d) %s)", t.Hi, ref(t.Args[0])))
		case OpSExt:
			sb.WriteString(fmt.Sprintf("((_ sign_extend %d) %s)", t.Hi, ref(t.Args[0])))
		case OpUF:
			sb.WriteString("(" + symName(t.Name))
			for _, a := range t.Args {
				sb.WriteString(" " + ref(a))
			}
			sb.WriteString(")")
		default:
			sb.WriteString("(" + opName[t.Op])
			for _, a := range t.Args {
				sb.WriteString(" " + ref(a))
			}
			sb.WriteString(")")
		}
		sb.WriteString(")\n")
	}
	names := make([]string, len(roots))
	for i, r := range roots {
		names[i] = ref(r)
	}
	return sb.String(), names
}

// Eval evaluates t under a model (variables by name, UF applications by key "name(a,b)").
func (b *B) Eval(t *Term, model map[string]uint64) uint64 {
	memo := map[int]uint64{}
	var ev func(t *Term) uint64
	ev = func(t *Term) uint64 {
		if v, ok := memo[t.ID]; ok {
			return v
		}
		var r uint64
		a := func(i int) uint64 { return ev(t.Args[i]) }
		bv := func(x bool) uint64 {
			if x {
				return 1
			}
			return 0
		}
		switch t.Op {
		case OpConst:
			r = t.Val
		case OpVar:
			r = model[t.Name]
		case OpUF:
			k := t.Name + "("
			for i := range t.Args {
				if i > 0 {
					k += ","
				}
				k += fmt.Sprint(a(i))
			}
			r = model[k+")"]
		case OpNot:
			r = 1 - a(0)
		case OpAnd:
			r = 1
			for i := range t.Args {
				r &= a(i)
			}
		case OpOr:
			for i := range t.Args {
				r |= a(i)
			}
		case OpIte:
			if a(0) == 1 {
				r = a(1)
			} else {
				r = a(2)
			}
		case OpEq:
			r = bv(a(0) == a(1))
		case OpExtract:
			r = (a(0) >> uint(t.Lo)) & mask(t.W)
		case OpZExt:
			r = a(0)
		case OpSExt:
			r = uint64(sx(a(0), t.Args[0].W)) & mask(t.W)
		case OpConcat:
			r = a(0)<<uint(t.Args[1].W) | a(1)
		case OpBNot:
			r = ^a(0) & mask(t.W)
		case OpNeg:
			r = -a(0) & mask(t.W)
		case OpULT, OpULE, OpSLT, OpSLE:
			c := b.cmp(t.Op, b.Const(a(0), t.Args[0].W), b.Const(a(1), t.Args[0].W))
			r = c.Val
		default:
			c := b.bin(t.Op, b.Const(a(0), t.W), b.Const(a(1), t.W))
			r = c.Val
		}
		memo[t.ID] = r
		return r
	}
	return ev(t)
}

// Subst rebuilds t with variables replaced according to m (by variable name).
func (b *B) Subst(t *Term, m map[string]*Term, memo map[int]*Term) *Term {
	if r, ok := memo[t.ID]; ok {
		return r
	}
	var r *Term
	switch t.Op {
	case OpConst:
		r = t
	case OpVar:
		if n, ok := m[t.Name]; ok {
			r = n
		} else {
			r = t
		}
	default:
		args := make([]*Term, len(t.Args))
		same := true
		for i, a := range t.Args {
			args[i] = b.Subst(a, m, memo)
			if args[i] != a {
				same = false
			}
		}
		if same {
			r = t
		} else {
			r = b.rebuild(t, args)
		}
	}
	memo[t.ID] = r
	return r
}

func (b *B) rebuild(t *Term, a []*Term) *Term {
	switch t.Op {
	case OpNot:
		return b.Not(a[0])
	case OpAnd:
		return b.And(a...)
	case OpOr:
		return b.Or(a...)
	case OpIte:
		return b.Ite(a[0], a[1], a[2])
	case OpEq:
		return b.Eq(a[0], a[1])
	case OpBNot:
		return b.BNot(a[0])
	case OpNeg:
		return b.Neg(a[0])
	case OpULT, OpULE, OpSLT, OpSLE:
		return b.cmp(t.Op, a[0], a[1])
	case OpConcat:
		return b.Concat(a[0], a[1])
	case OpExtract:
		return b.Extract(a[0], t.Hi, t.Lo)
	case OpZExt:
		return b.ZExt(a[0], t.W)
	case OpSExt:
		return b.SExt(a[0], t.W)
	case OpUF:
		return b.UF(t.Name, t.W, a...)
	}
	return b.bin(t.Op, a[0], a[1])
}
