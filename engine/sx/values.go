// Package sx is the sequential symbolic executor over go/ssa ("concrete shape, symbolic data").
package sx

import (
	"fmt"
	"go/types"

	"gosmt/smt"

	"golang.org/x/tools/go/ssa"
)

type T = smt.Term

// Value is one of: *T (ints, bools, opaque floats), Pointer, Slice, String, Iface, StructVal,
// ArrayVal, MapRef, ChanRef, FuncVal, Tuple, *mapIter.
type Value interface{}

// Loc is a memory location: *ScalarLoc, *StructLoc or *ArrayLoc.
type Loc interface{}

type ScalarLoc struct {
	V  Value
	T  types.Type
	ID int
}
type StructLoc struct {
	F  []Loc
	T  types.Type
	ID int
}
type ArrayLoc struct {
	E    []Loc
	Elem types.Type
	ID   int
}

// Pointer: L != nil is a direct pointer; Arr != nil is a pointer to element Idx (symbolic) of
// an array of scalar terms; both nil is the nil pointer.
type Pointer struct {
	L   Loc
	Arr *ArrayLoc
	Idx *T
}

func (p Pointer) IsNil() bool { return p.L == nil && p.Arr == nil }

// SymPtr is the content of a pointer-valued shared cell in interleaving mode: a 16-bit term
// holding the allocation-order id of the target (0 = nil). It is resolved to a concrete
// Pointer by a case split over the cell's domain when the cell is loaded.
type SymPtr struct {
	T    *T
	Cell int
}

type Slice struct {
	Arr           *ArrayLoc
	Off, Len, Cap *T // 64-bit terms
}

type String struct{ B []*T }

type Iface struct {
	T types.Type // nil: nil interface
	V Value
}

type StructVal struct{ F []Value }
type ArrayVal struct{ E []Value }

type mapEntry struct{ K, V Value }
type MapObj struct {
	E    []*mapEntry
	KeyT types.Type
	ValT types.Type
}
type MapRef struct{ M *MapObj }

type ChanObj struct {
	Cap    int
	Buf    []Value
	Closed bool
	ElemT  types.Type
	ID     int
	Count  *T // interleaving mode: symbolic occupancy of a token channel (chan struct{})
}
type ChanRef struct{ C *ChanObj }

type FuncVal struct {
	Fn   *ssa.Function
	Bind []Value
	// Builtin / intrinsic function values are not supported as first-class values.
}

type Tuple []Value

type mapIter struct {
	m    *MapObj
	snap []*mapEntry
	i    int
	str  *String
}

func intInfo(t types.Type) (w int, signed bool, ok bool) {
	b, isB := t.Underlying().(*types.Basic)
	if !isB {
		return 0, false, false
	}
	switch b.Kind() {
	case types.Int8:
		return 8, true, true
	case types.Int16:
		return 16, true, true
	case types.Int32, types.UntypedRune:
		return 32, true, true
	case types.Int64, types.Int, types.UntypedInt:
		return 64, true, true
	case types.Uint8:
		return 8, false, true
	case types.Uint16:
		return 16, false, true
	case types.Uint32:
		return 32, false, true
	case types.Uint64, types.Uint, types.Uintptr:
		return 64, false, true
	}
	return 0, false, false
}

func isFloat(t types.Type) bool {
	b, ok := t.Underlying().(*types.Basic)
	return ok && b.Info()&(types.IsFloat|types.IsComplex) != 0
}

func isBool(t types.Type) bool {
	b, ok := t.Underlying().(*types.Basic)
	return ok && b.Info()&types.IsBoolean != 0
}

func isString(t types.Type) bool {
	b, ok := t.Underlying().(*types.Basic)
	return ok && b.Info()&types.IsString != 0
}

// termElem reports whether values of type t are represented as a single *T.
func termElem(t types.Type) bool {
	if _, _, ok := intInfo(t); ok {
		return true
	}
	return isBool(t) || isFloat(t)
}

func (x *X) zeroValue(t types.Type) Value {
	switch u := t.Underlying().(type) {
	case *types.Basic:
		if w, _, ok := intInfo(t); ok {
			return x.B.Const(0, w)
		}
		switch {
		case isBool(t):
			return x.B.False()
		case isString(t):
			return String{}
		case isFloat(t):
			return x.B.Const(0, 64)
		case u.Kind() == types.UnsafePointer:
			return Pointer{}
		case u.Kind() == types.UntypedNil:
			return Pointer{}
		}
	case *types.Pointer:
		return Pointer{}
	case *types.Slice:
		return Slice{Off: x.c64(0), Len: x.c64(0), Cap: x.c64(0)}
	case *types.Map:
		return MapRef{}
	case *types.Chan:
		return ChanRef{}
	case *types.Signature:
		return FuncVal{}
	case *types.Interface:
		return Iface{}
	case *types.Struct:
		sv := StructVal{F: make([]Value, u.NumFields())}
		for i := range sv.F {
			sv.F[i] = x.zeroValue(u.Field(i).Type())
		}
		return sv
	case *types.Array:
		av := ArrayVal{E: make([]Value, u.Len())}
		for i := range av.E {
			av.E[i] = x.zeroValue(u.Elem())
		}
		return av
	case *types.Tuple:
		tv := make(Tuple, u.Len())
		for i := range tv {
			tv[i] = x.zeroValue(u.At(i).Type())
		}
		return tv
	}
	x.unsupported("zero value of type " + t.String())
	return nil
}

func (x *X) zeroLoc(t types.Type) Loc {
	switch u := t.Underlying().(type) {
	case *types.Struct:
		sl := &StructLoc{F: make([]Loc, u.NumFields()), T: t}
		x.regLoc(sl, &sl.ID)
		for i := range sl.F {
			sl.F[i] = x.zeroLoc(u.Field(i).Type())
		}
		return sl
	case *types.Array:
		return x.newArray(u.Elem(), int(u.Len()))
	}
	sc := &ScalarLoc{V: x.zeroValue(t), T: t}
	x.regLoc(sc, &sc.ID)
	return sc
}

// regLoc gives a location its allocation-order id (stable across re-executions of the same
// deterministic prefix; used by the interleaving mode to name shared cells and pointers).
func (x *X) regLoc(l Loc, id *int) {
	if x.bmc == nil {
		return
	}
	x.locSeq++
	*id = x.locSeq
	x.locByID = append(x.locByID, l)
}

func (x *X) newArray(elem types.Type, n int) *ArrayLoc {
	if n > 1<<20 {
		x.unsupported(fmt.Sprintf("array of %d elements", n))
	}
	al := &ArrayLoc{E: make([]Loc, n), Elem: elem}
	x.regLoc(al, &al.ID)
	if termElem(elem) {
		z := x.zeroValue(elem)
		for i := range al.E {
			sc := &ScalarLoc{V: z, T: elem}
			x.regLoc(sc, &sc.ID)
			al.E[i] = sc
		}
		return al
	}
	for i := range al.E {
		al.E[i] = x.zeroLoc(elem)
	}
	return al
}

func (x *X) loadLoc(l Loc) Value {
	switch l := l.(type) {
	case *ScalarLoc:
		if sp, ok := l.V.(SymPtr); ok {
			if x.bmc != nil && x.bmc.noResolve {
				return sp // predicates compare symbolic pointers without a case split
			}
			l.V = x.resolveSymPtr(sp)
		}
		return l.V
	case *StructLoc:
		sv := StructVal{F: make([]Value, len(l.F))}
		for i, f := range l.F {
			sv.F[i] = x.loadLoc(f)
		}
		return sv
	case *ArrayLoc:
		av := ArrayVal{E: make([]Value, len(l.E))}
		for i, e := range l.E {
			av.E[i] = x.loadLoc(e)
		}
		return av
	}
	panic("loadLoc: bad loc")
}

func (x *X) storeLoc(l Loc, v Value) {
	switch l := l.(type) {
	case *ScalarLoc:
		if v == nil {
			panic("storeLoc: nil value")
		}
		l.V = v
	case *StructLoc:
		sv, ok := v.(StructVal)
		if !ok {
			panic(fmt.Sprintf("storeLoc: struct loc gets %T", v))
		}
		for i, f := range l.F {
			x.storeLoc(f, sv.F[i])
		}
	case *ArrayLoc:
		av, ok := v.(ArrayVal)
		if !ok {
			panic(fmt.Sprintf("storeLoc: array loc gets %T", v))
		}
		for i, e := range l.E {
			x.storeLoc(e, av.E[i])
		}
	default:
		panic("storeLoc: bad loc")
	}
}

func (x *X) load(p Pointer) Value {
	if p.IsNil() {
		x.gopanic("nil pointer dereference")
	}
	if p.L != nil {
		return x.loadLoc(p.L)
	}
	return x.selectElem(p.Arr, p.Idx)
}

func (x *X) store(p Pointer, v Value) {
	if p.IsNil() {
		x.gopanic("nil pointer dereference")
	}
	if p.L != nil {
		x.storeLoc(p.L, v)
		return
	}
	vt := v.(*T)
	for k, e := range p.Arr.E {
		sl := e.(*ScalarLoc)
		sl.V = x.B.Ite(x.B.Eq(p.Idx, x.c64(uint64(k))), vt, sl.V.(*T))
	}
}

// selectElem builds the ite-chain for arr[idx] over an array of scalar terms.
func (x *X) selectElem(arr *ArrayLoc, idx *T) *T {
	n := len(arr.E)
	if n == 0 {
		// only reachable with a zero-length access that the path condition excludes
		return x.zeroValue(arr.Elem).(*T)
	}
	if idx.IsConst() {
		if idx.Val >= uint64(n) {
			// guarded by a condition that is false on this path (e.g. the tail of a symbolic-length copy)
			return x.zeroValue(arr.Elem).(*T)
		}
		return arr.E[idx.Val].(*ScalarLoc).V.(*T)
	}
	// If idx = base + const, restrict nothing; plain chain.
	r := arr.E[n-1].(*ScalarLoc).V.(*T)
	for k := n - 2; k >= 0; k-- {
		r = x.B.Ite(x.B.Eq(idx, x.c64(uint64(k))), arr.E[k].(*ScalarLoc).V.(*T), r)
	}
	return r
}

func (x *X) c64(v uint64) *T { return x.B.Const(v, 64) }

// eq builds the boolean term for a == b (Go ==).
func (x *X) eq(a, b Value) *T {
	switch a := a.(type) {
	case *T:
		return x.B.Eq(a, b.(*T))
	case SymPtr:
		return x.symPtrEq(a, b)
	case Pointer:
		if bs, isSym := b.(SymPtr); isSym {
			return x.symPtrEq(bs, a)
		}
		bp, ok := b.(Pointer)
		if !ok {
			x.unsupported(fmt.Sprintf("compare pointer with %T", b))
		}
		if a.L != nil || bp.L != nil || (a.Arr == nil && bp.Arr == nil) {
			if a.Arr != nil || bp.Arr != nil {
				// direct vs symbolic-index pointer
				return x.ptrEqMixed(a, bp)
			}
			return x.B.Bool(a.L == bp.L)
		}
		return x.ptrEqMixed(a, bp)
	case String:
		bs := b.(String)
		if len(a.B) != len(bs.B) {
			return x.B.False()
		}
		cs := make([]*T, len(a.B))
		for i := range a.B {
			cs[i] = x.B.Eq(a.B[i], bs.B[i])
		}
		return x.B.And(cs...)
	case Iface:
		bi, ok := b.(Iface)
		if !ok {
			x.unsupported(fmt.Sprintf("compare interface with %T", b))
		}
		if a.T == nil || bi.T == nil {
			return x.B.Bool(a.T == nil && bi.T == nil)
		}
		if !types.Identical(a.T, bi.T) {
			return x.B.False()
		}
		return x.eq(a.V, bi.V)
	case StructVal:
		bs := b.(StructVal)
		cs := make([]*T, len(a.F))
		for i := range a.F {
			cs[i] = x.eq(a.F[i], bs.F[i])
		}
		return x.B.And(cs...)
	case ArrayVal:
		ba := b.(ArrayVal)
		cs := make([]*T, len(a.E))
		for i := range a.E {
			cs[i] = x.eq(a.E[i], ba.E[i])
		}
		return x.B.And(cs...)
	case Slice: // only == nil is legal
		return x.B.Bool(a.Arr == nil && b.(Slice).Arr == nil)
	case MapRef:
		return x.B.Bool(a.M == b.(MapRef).M)
	case ChanRef:
		return x.B.Bool(a.C == b.(ChanRef).C)
	case FuncVal:
		return x.B.Bool(a.Fn == nil && b.(FuncVal).Fn == nil)
	}
	x.unsupported(fmt.Sprintf("compare %T", a))
	return nil
}

func (x *X) ptrEqMixed(a, b Pointer) *T {
	norm := func(p Pointer) (*ArrayLoc, *T, Loc) {
		if p.Arr != nil {
			return p.Arr, p.Idx, nil
		}
		return nil, nil, p.L
	}
	aa, ai, al := norm(a)
	ba, bi, bl := norm(b)
	switch {
	case aa != nil && ba != nil:
		if aa != ba {
			return x.B.False()
		}
		return x.B.Eq(ai, bi)
	case aa != nil:
		for k, e := range aa.E {
			if e == bl {
				return x.B.Eq(ai, x.c64(uint64(k)))
			}
		}
		return x.B.False()
	case ba != nil:
		for k, e := range ba.E {
			if e == al {
				return x.B.Eq(bi, x.c64(uint64(k)))
			}
		}
		return x.B.False()
	}
	return x.B.Bool(al == bl)
}

// ite merges two values of identical shape under condition c (used for symbolic selects).
func (x *X) ite(c *T, a, b Value) Value {
	switch a := a.(type) {
	case *T:
		return x.B.Ite(c, a, b.(*T))
	case StructVal:
		bs := b.(StructVal)
		r := StructVal{F: make([]Value, len(a.F))}
		for i := range a.F {
			r.F[i] = x.ite(c, a.F[i], bs.F[i])
		}
		return r
	}
	x.unsupported(fmt.Sprintf("ite over %T", a))
	return nil
}

// symPtrEq compares a symbolic pointer cell value with another pointer value.
func (x *X) symPtrEq(sp SymPtr, o Value) *T {
	switch o := o.(type) {
	case SymPtr:
		return x.B.Eq(sp.T, o.T)
	case Pointer:
		id := x.ptrTarget(o)
		if id < 0 {
			return x.B.False()
		}
		return x.B.Eq(sp.T, x.B.Const(uint64(id), ptrW))
	}
	x.unsupported(fmt.Sprintf("compare symbolic pointer with %T", o))
	return nil
}
