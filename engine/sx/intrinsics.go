package sx

import (
	"fmt"
	"go/types"
	"strings"

	"gosmt/smt"

	"golang.org/x/tools/go/ssa"
)

type intrinsic func(x *X, fn *ssa.Function, args []Value) Value

func (x *X) strArg(v Value) string {
	s, ok := v.(String)
	if !ok {
		x.unsupported("string argument expected")
	}
	cs, ok := strIsConst(s)
	if !ok {
		x.unsupported("constant string argument expected")
	}
	return cs
}

// inputName gives the per-path unique name of a nondeterministic input.
func (x *X) inputName(name string) string {
	k := x.names[name]
	x.names[name]++
	if k == 0 {
		return name
	}
	return fmt.Sprintf("%s#%d", name, k)
}

func (x *X) input(name string, w int) *T {
	t := x.B.Var(name, w)
	if !x.inputSeen[name] {
		x.inputSeen[name] = true
		x.inputs = append(x.inputs, t)
	}
	return t
}

func (x *X) nondet(args []Value, w int) *T {
	return x.input(x.inputName(x.strArg(args[0])), w)
}

func (x *X) boolToBV(b *T) *T { return x.B.Ite(b, x.B.Const(1, 1), x.B.Const(0, 1)) }

var harnessIntrinsics map[string]intrinsic
var intrinsics map[string]intrinsic
var pkgStubs map[string]func(x *X, fn *ssa.Function, args []Value) (Value, bool)

func init() {
	harnessIntrinsics = map[string]intrinsic{
		"vnU8":   func(x *X, fn *ssa.Function, a []Value) Value { return x.nondet(a, 8) },
		"vnU16":  func(x *X, fn *ssa.Function, a []Value) Value { return x.nondet(a, 16) },
		"vnU32":  func(x *X, fn *ssa.Function, a []Value) Value { return x.nondet(a, 32) },
		"vnU64":  func(x *X, fn *ssa.Function, a []Value) Value { return x.nondet(a, 64) },
		"vnInt":  func(x *X, fn *ssa.Function, a []Value) Value { return x.nondet(a, 64) },
		"vnBool": func(x *X, fn *ssa.Function, a []Value) Value { return x.nondet(a, 0) },
		"vnBytes": func(x *X, fn *ssa.Function, a []Value) Value {
			nm := x.inputName(x.strArg(a[0]))
			n := int(x.concretize(a[1].(*T), "vnBytes length"))
			arr := x.newArray(types.Typ[types.Uint8], n)
			for i := 0; i < n; i++ {
				arr.E[i].(*ScalarLoc).V = x.input(fmt.Sprintf("%s[%d]", nm, i), 8)
			}
			ln := x.c64(uint64(n))
			return Slice{Arr: arr, Off: x.c64(0), Len: ln, Cap: ln}
		},
		"vnString": func(x *X, fn *ssa.Function, a []Value) Value {
			nm := x.inputName(x.strArg(a[0]))
			n := int(x.concretize(a[1].(*T), "vnString length"))
			s := String{B: make([]*T, n)}
			for i := 0; i < n; i++ {
				s.B[i] = x.input(fmt.Sprintf("%s[%d]", nm, i), 8)
			}
			return s
		},
		"vnChoice": func(x *X, fn *ssa.Function, a []Value) Value {
			v := x.nondet(a, 64)
			n := a[1].(*T)
			if n.IsConst() && n.Val == 0 {
				panic(pathEnd{"infeasible", "vnChoice with no alternatives"})
			}
			if n.IsConst() {
				// enumerate without the solver; the input keeps its name for replay
				i := x.choose(int(n.Val))
				x.addPC(x.B.Eq(v, x.c64(uint64(i))))
				return x.c64(uint64(i))
			}
			x.addPC(x.B.ULT(v, n))
			return x.c64(x.concretize(v, "vnChoice"))
		},
		"vassume": func(x *X, fn *ssa.Function, a []Value) Value {
			c := a[0].(*T)
			if c.IsTrue() {
				return nil
			}
			if c.IsFalse() {
				panic(pathEnd{"infeasible", "assume false"})
			}
			if !x.replaying() {
				r, _ := x.check([]*T{c}, nil)
				if r == smt.Unsat {
					panic(pathEnd{"infeasible", "assumption unsatisfiable"})
				}
			}
			x.addPC(c)
			return nil
		},
		"vassert": func(x *X, fn *ssa.Function, a []Value) Value {
			x.assert(a[0].(*T), x.strArg(a[1]), "", nil)
			return nil
		},
		"vassertKnown": func(x *X, fn *ssa.Function, a []Value) Value {
			x.assert(a[0].(*T), x.strArg(a[1]), x.strArg(a[2]), a[3].(*T))
			return nil
		},
		"vreach": func(x *X, fn *ssa.Function, a []Value) Value {
			l := x.strArg(a[0])
			if x.St.Reached[l] || x.replaying() {
				return nil
			}
			r, vals := x.check(nil, x.inputs)
			if r == smt.Sat {
				x.St.Reached[l] = true
				if len(x.St.Samples) < 6 {
					m := x.modelOf(vals)
					x.St.Samples = append(x.St.Samples, m)
				}
			}
			return nil
		},
		"vufU8": func(x *X, fn *ssa.Function, a []Value) Value {
			return x.ufApp(x.strArg(a[0]), 8, a[1].(*T))
		},
		"vufU32": func(x *X, fn *ssa.Function, a []Value) Value {
			return x.ufApp(x.strArg(a[0]), 32, a[1].(*T))
		},
		"vufBool": func(x *X, fn *ssa.Function, a []Value) Value {
			t := x.ufApp(x.strArg(a[0]), 1, a[1].(*T))
			return x.B.Eq(t, x.B.Const(1, 1))
		},
		"vghostInc": func(x *X, fn *ssa.Function, a []Value) Value {
			n := x.strArg(a[0])
			c, _ := x.ghost["cnt:"+n].(*T)
			if c == nil {
				c = x.c64(0)
			}
			x.ghost["cnt:"+n] = x.B.Add(c, x.c64(1))
			return nil
		},
		"vghostGet": func(x *X, fn *ssa.Function, a []Value) Value {
			n := x.strArg(a[0])
			if l, ok := x.ghost[n].([]Value); ok {
				return x.c64(uint64(len(l)))
			}
			c, _ := x.ghost["cnt:"+n].(*T)
			if c == nil {
				c = x.c64(0)
			}
			return c
		},
		"vnow":       func(x *X, fn *ssa.Function, a []Value) Value { return x.clock() },
		"vand":       func(x *X, fn *ssa.Function, a []Value) Value { return x.B.And(a[0].(*T), a[1].(*T)) },
		"vor":        func(x *X, fn *ssa.Function, a []Value) Value { return x.B.Or(a[0].(*T), a[1].(*T)) },
		"vimplies":   func(x *X, fn *ssa.Function, a []Value) Value { return x.B.Implies(a[0].(*T), a[1].(*T)) },
		"vcutActive": func(x *X, fn *ssa.Function, a []Value) Value { return x.B.Bool(len(x.Cfg.Cuts) > 0) },
		"vclockWithin": func(x *X, fn *ssa.Function, a []Value) Value {
			// every later clock reading is at most d ns after the current instant
			now := x.clock()
			d := a[0].(*T)
			x.addPC(x.B.ULT(d, x.c64(1<<60)))
			lim := x.B.Add(now, d)
			x.addPC(x.B.ULT(lim, x.c64(1<<61)))
			x.clockMax = lim
			return nil
		},
		"vclockFreeze": func(x *X, fn *ssa.Function, a []Value) Value {
			// every clock reading from now on returns one (arbitrary) instant
			x.clock()
			x.clockFrozen = true
			return nil
		},
		"vsymbolic": func(x *X, fn *ssa.Function, a []Value) Value { return x.B.True() },
		"vfdWrites": func(x *X, fn *ssa.Function, a []Value) Value {
			l, _ := x.ghost["fdwrite"].([]Value)
			return x.c64(uint64(len(l)))
		},
		"vfdWrite": func(x *X, fn *ssa.Function, a []Value) Value {
			l, _ := x.ghost["fdwrite"].([]Value)
			i := int(x.concretize(a[0].(*T), "vfdWrite index"))
			if i >= len(l) {
				x.gopanic("vfdWrite: no such write")
			}
			var terms []*T
			for _, part := range l[i].(Tuple) {
				sl := part.(Slice)
				n := int(x.concretize(sl.Len, "written length"))
				for k := 0; k < n; k++ {
					terms = append(terms, x.sliceElemTerm(sl, k))
				}
			}
			arr := x.newArray(types.Typ[types.Uint8], len(terms))
			for k, t := range terms {
				arr.E[k].(*ScalarLoc).V = t
			}
			ln := x.c64(uint64(len(terms)))
			return Slice{Arr: arr, Off: x.c64(0), Len: ln, Cap: ln}
		},
		"vfetchPush": func(x *X, fn *ssa.Function, a []Value) Value { x.ghostAppend("fetchq", a[0]); return nil },
		// vfetchPushTimer(id): the runtime timer fires (it is no longer armed) and asserts waker id
		"vfetchPushTimer": func(x *X, fn *ssa.Function, a []Value) Value {
			x.ghostAppend("fetchq", Tuple{a[0], x.B.True()})
			return nil
		},
		// vexpectTimerAtBlock(): from now on, a goroutine that goes to sleep in Sleeper.Fetch with
		// no scripted event left must have a runtime timer armed (else it waits forever)
		"vexpectTimerAtBlock": func(x *X, fn *ssa.Function, a []Value) Value { x.ghost["timer.expect"] = x.B.True(); return nil },
		"vreadvPush":          func(x *X, fn *ssa.Function, a []Value) Value { x.ghostAppend("readvq", a[0]); return nil },
		"vrandPush":           func(x *X, fn *ssa.Function, a []Value) Value { x.ghostAppend("randq", a[0]); return nil },
		"vparam": func(x *X, fn *ssa.Function, a []Value) Value {
			if v, ok := x.Params[x.strArg(a[0])]; ok {
				return x.c64(uint64(int64(v)))
			}
			return a[1]
		},
	}

	nop := func(x *X, fn *ssa.Function, a []Value) Value { return nil }
	intrinsics = map[string]intrinsic{
		"(*sync.Mutex).Lock": func(x *X, fn *ssa.Function, a []Value) Value {
			l := x.lockCell(a[0], 0)
			if !x.branch(x.B.Eq(l.V.(*T), x.B.Const(0, 32))) {
				x.gopanic("lock discipline: Lock of a held sync.Mutex (self-deadlock in sequential step)")
			}
			l.V = x.B.Const(1, 32)
			return nil
		},
		"(*sync.Mutex).Unlock": func(x *X, fn *ssa.Function, a []Value) Value {
			l := x.lockCell(a[0], 0)
			if !x.branch(x.B.Eq(l.V.(*T), x.B.Const(1, 32))) {
				x.gopanic("sync: unlock of unlocked mutex")
			}
			l.V = x.B.Const(0, 32)
			return nil
		},
		"(*sync.Mutex).TryLock": func(x *X, fn *ssa.Function, a []Value) Value {
			l := x.lockCell(a[0], 0)
			if x.branch(x.B.Eq(l.V.(*T), x.B.Const(0, 32))) {
				l.V = x.B.Const(1, 32)
				return x.B.True()
			}
			return x.B.False()
		},
		"(*sync.RWMutex).Lock": func(x *X, fn *ssa.Function, a []Value) Value {
			w, r := x.rwCells(a[0])
			if !x.branch(x.B.And(x.B.Eq(w.V.(*T), x.B.Const(0, 32)), x.B.Eq(r.V.(*T), x.B.Const(0, 32)))) {
				x.gopanic("lock discipline: RWMutex.Lock while held")
			}
			w.V = x.B.Const(1, 32)
			return nil
		},
		"(*sync.RWMutex).TryLock": func(x *X, fn *ssa.Function, a []Value) Value {
			w, r := x.rwCells(a[0])
			if x.branch(x.B.And(x.B.Eq(w.V.(*T), x.B.Const(0, 32)), x.B.Eq(r.V.(*T), x.B.Const(0, 32)))) {
				w.V = x.B.Const(1, 32)
				return x.B.True()
			}
			return x.B.False()
		},
		"(*sync.RWMutex).Unlock": func(x *X, fn *ssa.Function, a []Value) Value {
			w, _ := x.rwCells(a[0])
			if !x.branch(x.B.Eq(w.V.(*T), x.B.Const(1, 32))) {
				x.gopanic("sync: Unlock of unlocked RWMutex")
			}
			w.V = x.B.Const(0, 32)
			return nil
		},
		"(*sync.RWMutex).RLock": func(x *X, fn *ssa.Function, a []Value) Value {
			w, r := x.rwCells(a[0])
			if !x.branch(x.B.Eq(w.V.(*T), x.B.Const(0, 32))) {
				x.gopanic("lock discipline: RWMutex.RLock while write-held")
			}
			r.V = x.B.Add(r.V.(*T), x.B.Const(1, 32))
			return nil
		},
		"(*sync.RWMutex).RUnlock": func(x *X, fn *ssa.Function, a []Value) Value {
			_, r := x.rwCells(a[0])
			if !x.branch(x.B.Not(x.B.Eq(r.V.(*T), x.B.Const(0, 32)))) {
				x.gopanic("sync: RUnlock of unlocked RWMutex")
			}
			r.V = x.B.Sub(r.V.(*T), x.B.Const(1, 32))
			return nil
		},
		"(*sync.WaitGroup).Add":  nop,
		"(*sync.WaitGroup).Done": nop,
		"(*sync.WaitGroup).Wait": nop,
		"(*sync.Once).Do": func(x *X, fn *ssa.Function, a []Value) Value {
			p := a[0].(Pointer)
			sl := p.L.(*StructLoc)
			// field "done" is the first field in Go 1.23 (atomic.Uint32 {_ noCopy; v uint32})
			cell := findTermCell(sl.F[0])
			if cell == nil {
				x.unsupported("sync.Once layout")
			}
			if x.branch(x.B.Eq(cell.V.(*T), x.B.Const(0, 32))) {
				cell.V = x.B.Const(1, 32)
				f := a[1].(FuncVal)
				x.call(f.Fn, nil, f.Bind)
			}
			return nil
		},
		"(*sync.Pool).Get": func(x *X, fn *ssa.Function, a []Value) Value {
			p := a[0].(Pointer)
			sl := p.L.(*StructLoc)
			st := sl.T.Underlying().(*types.Struct)
			for i := 0; i < st.NumFields(); i++ {
				if st.Field(i).Name() == "New" {
					f := sl.F[i].(*ScalarLoc).V.(FuncVal)
					if f.Fn == nil {
						return Iface{}
					}
					return x.call(f.Fn, nil, f.Bind)
				}
			}
			return Iface{}
		},
		"(*sync.Pool).Put":       nop,
		"(*sync.Cond).Signal":    nop,
		"(*sync.Cond).Broadcast": nop,

		"time.Now": func(x *X, fn *ssa.Function, a []Value) Value {
			return x.timeVal(fn.Signature.Results().At(0).Type(), x.clock())
		},
		"time.Since": func(x *X, fn *ssa.Function, a []Value) Value {
			t := x.timeNs(a[0])
			return x.B.Sub(x.clock(), t)
		},
		"(time.Time).Sub": func(x *X, fn *ssa.Function, a []Value) Value {
			return x.B.Sub(x.timeNs(a[0]), x.timeNs(a[1]))
		},
		"(time.Time).Add": func(x *X, fn *ssa.Function, a []Value) Value {
			return x.timeVal(fn.Signature.Results().At(0).Type(), x.B.Add(x.timeNs(a[0]), a[1].(*T)))
		},
		"(time.Time).Before": func(x *X, fn *ssa.Function, a []Value) Value {
			return x.B.SLT(x.timeNs(a[0]), x.timeNs(a[1]))
		},
		"(time.Time).After": func(x *X, fn *ssa.Function, a []Value) Value {
			return x.B.SLT(x.timeNs(a[1]), x.timeNs(a[0]))
		},
		"(time.Time).Equal": func(x *X, fn *ssa.Function, a []Value) Value {
			return x.B.Eq(x.timeNs(a[0]), x.timeNs(a[1]))
		},
		"(time.Time).IsZero": func(x *X, fn *ssa.Function, a []Value) Value {
			return x.B.Eq(x.timeNs(a[0]), x.c64(0))
		},
		"(time.Time).UnixNano": func(x *X, fn *ssa.Function, a []Value) Value { return x.timeNs(a[0]) },
		"(time.Time).Unix": func(x *X, fn *ssa.Function, a []Value) Value {
			return x.B.SDiv(x.timeNs(a[0]), x.c64(1000000000))
		},
		"time.Sleep": nop,
		"time.After": func(x *X, fn *ssa.Function, a []Value) Value {
			// a timer channel that is ready: selects explore both "timed out" and the other cases
			t := fn.Signature.Results().At(0).Type().Underlying().(*types.Chan).Elem()
			c := &ChanObj{Cap: 1, ElemT: t}
			c.Buf = append(c.Buf, x.timeVal(t, x.clock()))
			return ChanRef{C: c}
		},
		"time.AfterFunc": func(x *X, fn *ssa.Function, a []Value) Value {
			x.ghostAppend("timer.AfterFunc", a[0])
			x.ghost["timer.armed"] = x.B.True()
			return Pointer{L: x.zeroLoc(fn.Signature.Results().At(0).Type().(*types.Pointer).Elem())}
		},
		"time.NewTimer": func(x *X, fn *ssa.Function, a []Value) Value {
			x.ghostAppend("timer.New", a[0])
			x.ghost["timer.armed"] = x.B.True()
			return Pointer{L: x.zeroLoc(fn.Signature.Results().At(0).Type().(*types.Pointer).Elem())}
		},
		"(*time.Timer).Stop": func(x *X, fn *ssa.Function, a []Value) Value {
			x.ghostAppend("timer.Stop", x.c64(0))
			x.ghost["timer.armed"] = x.B.False()
			return x.freshVar("timerStop", 0)
		},
		"(*time.Timer).Reset": func(x *X, fn *ssa.Function, a []Value) Value {
			x.ghostAppend("timer.Reset", a[1])
			x.ghost["timer.lastReset"] = a[1]
			x.ghost["timer.armed"] = x.B.True()
			return x.freshVar("timerReset", 0)
		},

		"runtime.Gosched":   nop,
		"runtime.KeepAlive": nop,

		"math/rand.Int31n": func(x *X, fn *ssa.Function, a []Value) Value {
			n := a[0].(*T)
			var v *T
			if q, _ := x.ghost["randq"].([]Value); len(q) > 0 {
				v = q[0].(*T)
				x.ghost["randq"] = q[1:]
			} else {
				v = x.input(x.inputName("rand.Int31n"), 32)
			}
			if !x.branch(x.B.SLT(x.B.Const(0, 32), n)) {
				x.gopanic("invalid argument to Int31n")
			}
			if !x.branch(x.B.And(x.B.SLE(x.B.Const(0, 32), v), x.B.SLT(v, n))) {
				panic(pathEnd{"infeasible", "rand out of contract"})
			}
			return v
		},
		"math/rand.Int31": func(x *X, fn *ssa.Function, a []Value) Value {
			return x.B.LShr(x.input(x.inputName("rand.Int31"), 32), x.B.Const(1, 32))
		},
		"math/rand.Uint32": func(x *X, fn *ssa.Function, a []Value) Value { return x.input(x.inputName("rand.Uint32"), 32) },
		"math/rand.Int63": func(x *X, fn *ssa.Function, a []Value) Value {
			return x.B.LShr(x.input(x.inputName("rand.Int63"), 64), x.c64(1))
		},
		"math/rand.Int": func(x *X, fn *ssa.Function, a []Value) Value {
			return x.B.LShr(x.input(x.inputName("rand.Int"), 64), x.c64(1))
		},
		"math/rand.Intn": func(x *X, fn *ssa.Function, a []Value) Value {
			n := a[0].(*T)
			v := x.input(x.inputName("rand.Intn"), 64)
			if !x.branch(x.B.SLT(x.c64(0), n)) {
				x.gopanic("invalid argument to Intn")
			}
			if !x.branch(x.B.And(x.B.SLE(x.c64(0), v), x.B.SLT(v, n))) {
				panic(pathEnd{"infeasible", "rand out of contract"})
			}
			return v
		},
		"math/rand.Seed":              nop,
		"crypto/rand.Read":            func(x *X, fn *ssa.Function, a []Value) Value { return x.randRead(a[0].(Slice)) },
		"math/rand.Read":              func(x *X, fn *ssa.Function, a []Value) Value { return x.randRead(a[0].(Slice)) },
		ModulePath + "/pkg/rand.Read": func(x *X, fn *ssa.Function, a []Value) Value { return x.randRead(a[0].(Slice)) },

		ModulePath + "/protocol/network/hash.RandN32": func(x *X, fn *ssa.Function, a []Value) Value {
			// arbitrary words; not registered as named inputs (natively they are random as well)
			n := int(x.concretize(a[0].(*T), "RandN32 n"))
			arr := x.newArray(types.Typ[types.Uint32], n)
			for i := 0; i < n; i++ {
				arr.E[i].(*ScalarLoc).V = x.freshVar("randn32", 32)
			}
			ln := x.c64(uint64(n))
			return Slice{Arr: arr, Off: x.c64(0), Len: ln, Cap: ln}
		},
		ModulePath + "/protocol/transport/tcp.tcpTimeStamp": func(x *X, fn *ssa.Function, a []Value) Value {
			// millisecond clock: an arbitrary 32-bit reading plus the endpoint's offset
			// (two 16-bit halves: friendlier to the integer back end used for checksum queries)
			nm := x.inputName("tsclock")
			return x.B.Add(x.B.Concat(x.input(nm+".hi", 16), x.input(nm+".lo", 16)), a[0].(*T))
		},
		ModulePath + "/protocol/transport/tcp.flagString": func(x *X, fn *ssa.Function, a []Value) Value {
			return x.strConst("<flags>") // only used in log output
		},
		ModulePath + "/protocol/transport/tcp.timeStamp": func(x *X, fn *ssa.Function, a []Value) Value {
			// coarse cookie clock: an arbitrary 8-bit slot number (harnesses constrain successive readings)
			return x.B.ZExt(x.input(x.inputName("cookiets"), 8), 32)
		},
		"(*" + ModulePath + "/protocol/transport/tcp.listenContext).cookieHash": func(x *X, fn *ssa.Function, a []Value) Value {
			// SHA-1 is an uninterpreted function of (ports, addresses-as-given, ts, nonce index)
			id := a[1].(StructVal)
			ports := x.B.Concat(id.F[0].(*T), id.F[2].(*T))
			return x.B.UF("cookieHash", 32, ports, a[2].(*T), x.B.Extract(a[3].(*T), 7, 0))
		},
		ModulePath + "/protocol/link/rawfile.BlockingReadv": func(x *X, fn *ssa.Function, a []Value) Value {
			// the kernel returns the next scripted frame length (vreadvPush); the harness pre-fills the buffers
			q, _ := x.ghost["readvq"].([]Value)
			if len(q) == 0 {
				x.unsupported("BlockingReadv without a scripted length")
			}
			x.ghost["readvq"] = q[1:]
			return Tuple{q[0], Pointer{}}
		},
		ModulePath + "/protocol/link/rawfile.NonBlockingWrite": func(x *X, fn *ssa.Function, a []Value) Value {
			x.ghostAppend("fdwrite", Tuple{a[1]})
			return Pointer{}
		},
		ModulePath + "/protocol/link/rawfile.NonBlockingWrite2": func(x *X, fn *ssa.Function, a []Value) Value {
			x.ghostAppend("fdwrite", Tuple{a[1], a[2]})
			return Pointer{}
		},
		"(*" + ModulePath + "/pkg/sleep.Sleeper).Fetch": func(x *X, fn *ssa.Function, a []Value) Value {
			// the goroutine waits for events: scripted wake-ups (vfetchPush) are returned in order,
			// after that the wait is the end of the explored step
			q, _ := x.ghost["fetchq"].([]Value)
			if len(q) == 0 {
				if x.ghost["timer.expect"] != nil {
					armed, _ := x.ghost["timer.armed"].(*T)
					x.St.Reached["blocked-in-fetch"] = true
					if armed == nil || !armed.IsTrue() {
						x.assert(x.B.False(), "a goroutine that waits for events with nothing pending has a timer armed (otherwise it waits forever)", "", nil)
					}
				}
				panic(pathEnd{"blocked", "Sleeper.Fetch: waiting for events"})
			}
			x.ghost["fetchq"] = q[1:]
			if tv, isTimer := q[0].(Tuple); isTimer {
				x.ghost["timer.armed"] = x.B.False() // it fired
				return Tuple{tv[0], x.B.True()}
			}
			return Tuple{q[0], x.B.True()}
		},
		"strings.Index": func(x *X, fn *ssa.Function, a []Value) Value {
			// first occurrence of sep in s (concrete lengths, symbolic bytes): decided position by position
			str, sep := a[0].(String), a[1].(String)
			n, m := len(str.B), len(sep.B)
			if m == 0 {
				return x.c64(0)
			}
			for i := 0; i+m <= n; i++ {
				cs := make([]*T, m)
				for j := 0; j < m; j++ {
					cs[j] = x.B.Eq(str.B[i+j], sep.B[j])
				}
				if x.branch(x.B.And(cs...)) {
					return x.c64(uint64(i))
				}
			}
			return x.c64(^uint64(0))
		},
		"strings.EqualFold": func(x *X, fn *ssa.Function, a []Value) Value {
			// ASCII case folding (harnesses keep symbolic bytes below 0x80)
			s1, s2 := a[0].(String), a[1].(String)
			if len(s1.B) != len(s2.B) {
				return x.B.False()
			}
			lower := func(c *T) *T {
				up := x.B.And(x.B.ULE(x.B.Const('A', 8), c), x.B.ULE(c, x.B.Const('Z', 8)))
				return x.B.Ite(up, x.B.Add(c, x.B.Const(32, 8)), c)
			}
			cs := make([]*T, len(s1.B))
			for i := range s1.B {
				cs[i] = x.B.Eq(lower(s1.B[i]), lower(s2.B[i]))
			}
			return x.B.And(cs...)
		},
		"internal/abi.NoEscape":                                  func(x *X, fn *ssa.Function, a []Value) Value { return a[0] },
		"(*" + ModulePath + "/protocol.StatCounter).Increment":   nop,
		"(*" + ModulePath + "/protocol.StatCounter).IncrementBy": nop,
	}
	for _, w := range []string{"Int32", "Uint32", "Int64", "Uint64", "Uintptr"} {
		bits := 64
		if strings.HasSuffix(w, "32") {
			bits = 32
		}
		bw := bits
		intrinsics["sync/atomic.Load"+w] = func(x *X, fn *ssa.Function, a []Value) Value { return x.load(a[0].(Pointer)) }
		intrinsics["sync/atomic.Store"+w] = func(x *X, fn *ssa.Function, a []Value) Value { x.store(a[0].(Pointer), a[1]); return nil }
		intrinsics["sync/atomic.Add"+w] = func(x *X, fn *ssa.Function, a []Value) Value {
			p := a[0].(Pointer)
			n := x.B.Add(x.load(p).(*T), a[1].(*T))
			x.store(p, n)
			return n
		}
		intrinsics["sync/atomic.Swap"+w] = func(x *X, fn *ssa.Function, a []Value) Value {
			p := a[0].(Pointer)
			o := x.load(p)
			x.store(p, a[1])
			return o
		}
		intrinsics["sync/atomic.CompareAndSwap"+w] = func(x *X, fn *ssa.Function, a []Value) Value {
			p := a[0].(Pointer)
			_ = bw
			if x.branch(x.B.Eq(x.load(p).(*T), a[1].(*T))) {
				x.store(p, a[2])
				return x.B.True()
			}
			return x.B.False()
		}
		// typed atomics (atomic.Int32 etc.): receiver points to struct{_ noCopy; v T}
		tn := "(*sync/atomic." + w + ")"
		intrinsics[tn+".Load"] = func(x *X, fn *ssa.Function, a []Value) Value { return x.atomCell(a[0]).V }
		intrinsics[tn+".Store"] = func(x *X, fn *ssa.Function, a []Value) Value { x.atomCell(a[0]).V = a[1]; return nil }
		intrinsics[tn+".Add"] = func(x *X, fn *ssa.Function, a []Value) Value {
			c := x.atomCell(a[0])
			c.V = x.B.Add(c.V.(*T), a[1].(*T))
			return c.V
		}
		intrinsics[tn+".Swap"] = func(x *X, fn *ssa.Function, a []Value) Value {
			c := x.atomCell(a[0])
			o := c.V
			c.V = a[1]
			return o
		}
		intrinsics[tn+".CompareAndSwap"] = func(x *X, fn *ssa.Function, a []Value) Value {
			c := x.atomCell(a[0])
			if x.branch(x.B.Eq(c.V.(*T), a[1].(*T))) {
				c.V = a[2]
				return x.B.True()
			}
			return x.B.False()
		}
	}
	intrinsics["sync/atomic.LoadPointer"] = func(x *X, fn *ssa.Function, a []Value) Value { return x.load(a[0].(Pointer)) }
	intrinsics["sync/atomic.StorePointer"] = func(x *X, fn *ssa.Function, a []Value) Value { x.store(a[0].(Pointer), a[1]); return nil }
	intrinsics["sync/atomic.SwapPointer"] = func(x *X, fn *ssa.Function, a []Value) Value {
		p := a[0].(Pointer)
		o := x.load(p)
		x.store(p, a[1])
		return o
	}
	intrinsics["sync/atomic.CompareAndSwapPointer"] = func(x *X, fn *ssa.Function, a []Value) Value {
		p := a[0].(Pointer)
		if x.branch(x.eq(x.load(p), a[1])) {
			x.store(p, a[2])
			return x.B.True()
		}
		return x.B.False()
	}

	pkgStubs = map[string]func(x *X, fn *ssa.Function, args []Value) (Value, bool){
		"log": func(x *X, fn *ssa.Function, a []Value) (Value, bool) {
			if strings.HasPrefix(fn.Name(), "Fatal") || strings.HasPrefix(fn.Name(), "Panic") {
				x.gopanic("log." + fn.Name())
			}
			if fn.Signature.Results().Len() == 0 {
				return nil, true
			}
			return nil, false
		},
		"math": func(x *X, fn *ssa.Function, a []Value) (Value, bool) {
			res := fn.Signature.Results()
			if res.Len() == 1 && isFloat(res.At(0).Type()) && fn.Signature.Recv() == nil {
				x.note("floating-point operation havocked")
				return x.freshVar("math."+fn.Name(), 64), true
			}
			return nil, false
		},
		"fmt": func(x *X, fn *ssa.Function, a []Value) (Value, bool) {
			switch fn.Name() {
			case "Printf", "Println", "Print", "Fprintf", "Fprintln", "Fprint":
				res := fn.Signature.Results()
				return Tuple{x.c64(0), x.zeroValue(res.At(1).Type())}, true
			case "Sprintf", "Sprint", "Sprintln":
				x.note("fmt." + fn.Name() + " result is an opaque constant string")
				return x.strConst("<fmt>"), true
			case "Errorf":
				return x.opaqueError(), true
			}
			return nil, false
		},
	}
}

func (x *X) opaqueError() Value {
	ep := x.E.Prog.ImportedPackage("errors")
	if ep == nil {
		x.unsupported("package errors not loaded")
	}
	newFn := ep.Func("New")
	return x.call(newFn, []Value{x.strConst("<fmt.Errorf>")}, nil)
}

func (x *X) ufApp(name string, w int, arg *T) *T {
	t := x.B.UF(name, w, arg)
	if !x.inputSeen[fmt.Sprintf("uf:%d", t.ID)] {
		x.inputSeen[fmt.Sprintf("uf:%d", t.ID)] = true
		x.inputs = append(x.inputs, t)
	}
	return t
}

func findTermCell(l Loc) *ScalarLoc {
	switch l := l.(type) {
	case *ScalarLoc:
		if _, ok := l.V.(*T); ok {
			return l
		}
	case *StructLoc:
		for _, f := range l.F {
			if c := findTermCell(f); c != nil {
				return c
			}
		}
	}
	return nil
}

func (x *X) atomCell(v Value) *ScalarLoc {
	p := v.(Pointer)
	if p.IsNil() {
		x.gopanic("nil pointer dereference")
	}
	c := findTermCell(p.L)
	if c == nil {
		x.unsupported("atomic typed value layout")
	}
	return c
}

// lockCell returns the "state" cell of a sync.Mutex.
func (x *X) lockCell(v Value, _ int) *ScalarLoc {
	p := v.(Pointer)
	if p.IsNil() {
		x.gopanic("nil pointer dereference")
	}
	sl, ok := p.L.(*StructLoc)
	if !ok {
		x.unsupported("sync.Mutex layout")
	}
	c, ok := sl.F[0].(*ScalarLoc)
	if !ok {
		x.unsupported("sync.Mutex layout")
	}
	return c
}

// rwCells returns (writer-held cell, reader-count cell) of a sync.RWMutex.
func (x *X) rwCells(v Value) (*ScalarLoc, *ScalarLoc) {
	p := v.(Pointer)
	if p.IsNil() {
		x.gopanic("nil pointer dereference")
	}
	sl := p.L.(*StructLoc)
	st := sl.T.Underlying().(*types.Struct)
	var w, r *ScalarLoc
	for i := 0; i < st.NumFields(); i++ {
		switch st.Field(i).Name() {
		case "w":
			w = sl.F[i].(*StructLoc).F[0].(*ScalarLoc)
		case "writerSem":
			r = sl.F[i].(*ScalarLoc)
		}
	}
	if w == nil || r == nil {
		x.unsupported("sync.RWMutex layout")
	}
	return w, r
}

// clock returns a fresh instant >= the previous one (monotone clock, ns, signed 64 bit,
// within [0, 2^61) so that durations never overflow).
func (x *X) clock() *T {
	if x.clockFrozen && x.mono != nil {
		return x.mono
	}
	t := x.input(x.inputName("now"), 64)
	lo := x.mono
	if lo == nil {
		lo = x.c64(1) // never the zero time
	}
	c := x.B.And(x.B.ULE(lo, t), x.B.ULT(t, x.c64(1<<61)))
	if x.clockMax != nil {
		c = x.B.And(c, x.B.ULE(t, x.clockMax))
	}
	x.addPC(c) // always satisfiable: lo <= clockMax < 2^61 by construction
	x.mono = t
	return t
}

// time.Time is struct{wall uint64; ext int64; loc *Location}; we keep ns in ext.
func (x *X) timeVal(t types.Type, ns *T) Value {
	sv := x.zeroValue(t).(StructVal)
	sv.F[1] = ns
	return sv
}

func (x *X) timeNs(v Value) *T { return v.(StructVal).F[1].(*T) }

func (x *X) randRead(s Slice) Value {
	n := int(x.concretize(s.Len, "rand.Read length"))
	nm := x.inputName("rand.Read")
	for i := 0; i < n; i++ {
		p := x.elemPtr(s.Arr, x.B.Add(s.Off, x.c64(uint64(i))))
		x.store(p, x.input(fmt.Sprintf("%s[%d]", nm, i), 8))
	}
	return Tuple{x.c64(uint64(n)), Iface{}}
}

// assert checks c on the current path. knownID/sig: see DESIGN section 6.
func (x *X) assert(c *T, msg, knownID string, sig *T) {
	if c.IsTrue() {
		return
	}
	if x.replaying() {
		// checked on an earlier path with the same prefix
		if !x.Cfg.NoLemmas {
			x.addPC(c) // proven assertions serve as lemmas for later queries
		}
		return
	}
	neg := x.B.Not(c)
	open := knownID != "" && x.Cfg.OpenKnown[knownID]
	extra := []*T{neg}
	if open {
		extra = append(extra, x.B.Not(sig))
	}
	r, vals := x.checkAssert(extra, x.inputs)
	switch r {
	case smt.Sat:
		x.St.Violations = append(x.St.Violations, Violation{Msg: msg, Kind: "assert", Model: x.modelOf(vals),
			Where: x.where(), PathNo: x.St.Paths})
	case smt.Unknown:
		x.St.Inconclusive = append(x.St.Inconclusive, "assertion query unknown: "+msg)
	}
	if open {
		if _, seen := x.St.KnownHit[knownID]; !seen {
			r2, _ := x.check([]*T{neg, sig}, nil)
			if r2 == smt.Sat {
				x.St.KnownHit[knownID] = msg
			}
		}
	}
	// continue under the assertion (later assertions are checked assuming earlier ones)
	if r == smt.Unsat && !open && x.Cfg.NoLemmas {
		// pc implies c; for checksum-style equalities adding it only burdens later queries
		return
	}
	r3, _ := x.check([]*T{c}, nil)
	if r3 == smt.Unsat {
		panic(pathEnd{"infeasible", "path dead after failed assertion"})
	}
	x.addPC(c)
}

// ---------------------------------------------------------------------------
// Loop cut-points

// CutSpec cuts the loop whose header is the block of function Func that contains a phi
// for source variable Var (or, if Block >= 0, that block index). Inv names an in-package
// harness function whose parameters are named after loop variables (phi comments); it is
// called with the havocked values and must return bool.
type CutSpec struct {
	Func string `json:"func"` // SSA function name, e.g. (*pkgpath.T).Method
	Var  string `json:"var"`  // a loop-carried source variable (identifies the loop header)
	Inv  string `json:"inv"`  // harness function: invariant over loop variables (parameters named like them)
	Step string `json:"step"` // optional harness function over (v, v_next) pairs, asserted on the back edge
	Pkg  string `json:"pkg"`  // import path of the package holding Inv/Step
	Mode string `json:"mode"` // "" = inductive (base + step); "havoc" = arbitrary iteration satisfying Inv (no base case)
}

func (x *X) atCut(fr *frame, blk, prev *ssa.BasicBlock) (*ssa.BasicBlock, bool) {
	if len(x.Cfg.Cuts) == 0 {
		return nil, false
	}
	var spec *CutSpec
	for i := range x.Cfg.Cuts {
		if x.Cfg.Cuts[i].Func == fr.fn.String() {
			spec = &x.Cfg.Cuts[i]
		}
	}
	if spec == nil {
		return nil, false
	}
	// loop header = block with a phi whose comment is spec.Var
	isHdr := false
	for _, ins := range blk.Instrs {
		if phi, ok := ins.(*ssa.Phi); ok {
			if phi.Comment == spec.Var {
				isHdr = true
			}
		} else {
			break
		}
	}
	if !isHdr {
		return nil, false
	}
	key := fmt.Sprintf("%p:%d", fr, blk.Index)
	x.cutSeen[key]++
	hp := x.E.Pkgs[ModulePath+"/"+spec.Pkg]
	if hp == nil {
		x.unsupported("cut: package not loaded: " + spec.Pkg)
	}
	inv := hp.Func(spec.Inv)
	if inv == nil {
		x.unsupported("cut invariant function not found: " + spec.Inv)
	}
	phiOf := func(name string) *ssa.Phi {
		for _, ins := range blk.Instrs {
			if phi, ok := ins.(*ssa.Phi); ok && phi.Comment == name {
				return phi
			}
		}
		return nil
	}
	callInv := func() *T {
		var args []Value
		for _, p := range inv.Params {
			var v Value
			for _, ins := range blk.Instrs {
				if phi, ok := ins.(*ssa.Phi); ok && phi.Comment == p.Name() {
					v = fr.env[phi]
				}
			}
			if v == nil {
				// not a phi: a parameter or free variable of the function by that name
				for _, fp := range fr.fn.Params {
					if fp.Name() == p.Name() {
						v = fr.env[fp]
					}
				}
			}
			if v == nil {
				x.unsupported("cut invariant parameter " + p.Name() + " matches no loop variable")
			}
			args = append(args, v)
		}
		return x.call(inv, args, nil).(*T)
	}
	if x.cutSeen[key] == 1 {
		// base case: invariant holds on entry (phis take their entry values)
		for _, ins := range blk.Instrs {
			phi, ok := ins.(*ssa.Phi)
			if !ok {
				break
			}
			for i, p := range blk.Preds {
				if p == prev {
					fr.env[phi] = x.get(fr, phi.Edges[i])
				}
			}
		}
		if spec.Mode != "havoc" {
			x.assert(callInv(), "loop invariant holds on entry ("+spec.Inv+")", "", nil)
		}
		// havoc phis (loop-carried state); memory written in the loop must be scalars carried in phis
		for _, ins := range blk.Instrs {
			phi, ok := ins.(*ssa.Phi)
			if !ok {
				break
			}
			w, _, ok2 := intInfo(phi.Type())
			switch {
			case ok2:
				fr.env[phi] = x.input(x.inputName("cut."+phi.Comment), w)
			case isBool(phi.Type()):
				fr.env[phi] = x.input(x.inputName("cut."+phi.Comment), 0)
			default:
				x.unsupported("cut: loop-carried value of type " + phi.Type().String())
			}
		}
		x.cutOld = map[string]Value{}
		for _, ins := range blk.Instrs {
			if phi, ok := ins.(*ssa.Phi); ok {
				x.cutOld[phi.Comment] = fr.env[phi]
			}
		}
		c := callInv()
		r, _ := x.check([]*T{c}, nil)
		if r == smt.Unsat {
			panic(pathEnd{"infeasible", "cut invariant unsatisfiable"})
		}
		x.addPC(c)
		// continue executing the header's non-phi instructions
		return x.runBlockBody(fr, blk), true
	}
	// second arrival: inductive step
	for _, ins := range blk.Instrs {
		phi, ok := ins.(*ssa.Phi)
		if !ok {
			break
		}
		for i, p := range blk.Preds {
			if p == prev {
				fr.env[phi] = x.get(fr, phi.Edges[i])
			}
		}
	}
	if spec.Mode != "havoc" {
		x.assert(callInv(), "loop invariant preserved ("+spec.Inv+")", "", nil)
	}
	if spec.Step != "" {
		stepFn := hp.Func(spec.Step)
		if stepFn == nil {
			x.unsupported("cut step function not found: " + spec.Step)
		}
		var args []Value
		for _, p := range stepFn.Params {
			nm := p.Name()
			if strings.HasSuffix(nm, "_next") {
				phi := phiOf(strings.TrimSuffix(nm, "_next"))
				if phi == nil {
					x.unsupported("cut step parameter " + nm + " matches no loop variable")
				}
				args = append(args, fr.env[phi])
			} else {
				v, ok := x.cutOld[nm]
				if !ok {
					x.unsupported("cut step parameter " + nm + " matches no loop variable")
				}
				args = append(args, v)
			}
		}
		x.assert(x.call(stepFn, args, nil).(*T), "loop step relation ("+spec.Step+")", "", nil)
	}
	x.St.Reached["cut:"+spec.Inv+":step"] = true
	panic(pathEnd{"cut", "inductive step closed"})
}

// runBlockBody executes the non-phi instructions of blk and returns the successor
// (nil if the function returned; the result is in fr.result).
func (x *X) runBlockBody(fr *frame, blk *ssa.BasicBlock) *ssa.BasicBlock {
	for _, ins := range blk.Instrs {
		if _, ok := ins.(*ssa.Phi); ok {
			continue
		}
		x.curInstr = ins
		switch ins := ins.(type) {
		case *ssa.If:
			if x.branch(x.get(fr, ins.Cond).(*T)) {
				return blk.Succs[0]
			}
			return blk.Succs[1]
		case *ssa.Jump:
			return blk.Succs[0]
		case *ssa.Return:
			switch len(ins.Results) {
			case 0:
				fr.result = nil
			case 1:
				fr.result = x.get(fr, ins.Results[0])
			default:
				tv := make(Tuple, len(ins.Results))
				for i, r := range ins.Results {
					tv[i] = x.get(fr, r)
				}
				fr.result = tv
			}
			return nil
		case *ssa.Panic:
			x.gopanic("explicit panic")
		case *ssa.RunDefers:
			for i := len(fr.defers) - 1; i >= 0; i-- {
				fr.defers[i]()
			}
			fr.defers = nil
		default:
			x.exec(fr, ins)
		}
	}
	return nil
}
