package sx

import (
	"fmt"
	"go/constant"
	"go/token"
	"go/types"
	"math"
	"os"
	"sort"
	"strings"
	"sync/atomic"
	"time"

	"gosmt/smt"

	"golang.org/x/tools/go/ssa"
)

// ---------------------------------------------------------------------------
// Decisions / DFS by re-execution

type decision struct {
	kind    int // 0 branch, 1 concretize, 2 choose
	b       bool
	done    bool     // branch: other side explored or infeasible
	vals    []uint64 // concretize: values tried so far (last = current)
	advance bool     // concretize/choose: pick next on replay
	n       int      // choose: number of alternatives
}

type pathEnd struct {
	kind string // "return", "panic", "infeasible", "unsupported", "blocked", "unwind", "exhausted", "budget"
	msg  string
}

// Violation is a failed assertion / reachable panic with a model.
// StopAll is set by the driver once an obligation has finished with a violation: the
// remaining obligations stop (they are reported as not completed) so that the run fails fast.
var StopAll int32

type Violation struct {
	Msg    string            `json:"msg"`
	Kind   string            `json:"kind"` // "assert" | "panic"
	Model  map[string]uint64 `json:"model"`
	Where  string            `json:"where"`
	PathNo int               `json:"path"`
	Trace  []string          `json:"trace,omitempty"` // interleaving mode: the schedule, step by step
}

type Config struct {
	Unwind           int
	MaxPaths         int
	MaxSteps         int
	TimeoutMs        int
	Solver           string
	AllowPanic       bool // panics are outcomes, not violations
	OpenKnown        map[string]bool
	Deadline         time.Time
	MaxConcVals      int
	Stubs            map[string]bool // extra named stubs enabled
	Trace            bool
	Cuts             []CutSpec
	AssertSolver     string // one-shot back end for assertion queries (e.g. cvc5-int for checksum arithmetic)
	AssertTimeoutMs  int
	BMCTimeoutMs     int
	NoStub           map[string]bool // functions whose stub is switched off for this obligation (the real body runs)
	DivergeViolation bool            // exceeding the unwinding / step bound is non-termination, reported with a model
	NoLemmas         bool            // do not add proven assertions to the path condition
}

// Stats of one obligation run.
type Stats struct {
	Paths        int
	PathKinds    map[string]int
	Forks        int
	Steps        int
	MaxUnwind    int
	Funcs        map[string]bool
	Reached      map[string]bool
	Notes        map[string]int
	Inconclusive []string
	Violations   []Violation
	KnownHit     map[string]string
	Samples      []map[string]uint64
	StubsUsed    map[string]int
}

// X is the executor for one obligation.
type X struct {
	E   *Engine
	B   *smt.B
	S   *smt.Solver
	Cfg Config
	St  Stats

	trace []decision
	pos   int
	pc    []*T
	// per-path state
	globals                              map[*ssa.Global]Loc
	names                                map[string]int
	inputs                               []*T // named nondeterministic inputs of this path, in creation order
	inputSeen                            map[string]bool
	steps                                int
	depth                                int
	fresh                                int
	ghost                                map[string]Value
	curInstr                             ssa.Instruction
	mono                                 *T // last clock reading
	lastModel                            map[string]uint64
	cutSeen                              map[string]int
	Params                               map[string]int
	cutOld                               map[string]Value
	stack                                []*frame
	locSeq                               int
	locByID                              []Loc
	chanByID                             []*ChanObj
	bmc                                  *bmcCtx
	realSleep                            bool // the obligation is about pkg/sleep itself: do not stub Sleeper.Fetch
	clockMax                             *T
	clockFrozen                          bool
	AuxQueries, AuxSat, AuxUnsat, AuxUnk int
	AuxTime                              time.Duration
}

func (x *X) unsupported(msg string) {
	where := ""
	if x.curInstr != nil {
		where = " at " + x.E.Prog.Fset.Position(x.curInstr.Pos()).String() + " (" + x.curInstr.String() + ")"
		if x.curInstr.Parent() != nil {
			where += " in " + x.curInstr.Parent().String()
		}
	}
	panic(pathEnd{"unsupported", msg + where})
}

func (x *X) note(s string) { x.St.Notes[s]++ }

func (x *X) where() string {
	if x.curInstr == nil {
		return ""
	}
	p := x.E.Prog.Fset.Position(x.curInstr.Pos())
	fn := ""
	if x.curInstr.Parent() != nil {
		fn = x.curInstr.Parent().String()
	}
	return fmt.Sprintf("%s:%d %s", p.Filename, p.Line, fn)
}

// check runs a solver query on pc + extra.
func (x *X) check(extra []*T, want []*T) (smt.Result, []uint64) {
	as := append(append([]*T{}, x.pc...), extra...)
	return x.S.Check(x.B, as, want, nil)
}

func (x *X) addPC(c *T) {
	if c.IsTrue() {
		return
	}
	x.pc = append(x.pc, c)
}

// branch decides a symbolic condition, forking by re-execution.
func (x *X) branch(c *T) bool {
	if c.IsConst() {
		return c.Val == 1
	}
	if x.pos < len(x.trace) {
		d := x.trace[x.pos]
		x.pos++
		if d.kind != 0 {
			panic(pathEnd{"unsupported", "nondeterministic replay (decision kind mismatch)"})
		}
		if d.b {
			x.addPC(c)
		} else {
			x.addPC(x.B.Not(c))
		}
		return d.b
	}
	if !x.Cfg.Deadline.IsZero() && time.Now().After(x.Cfg.Deadline) {
		panic(pathEnd{"budget", "time budget exhausted"})
	}
	if atomic.LoadInt32(&StopAll) != 0 && len(x.St.Violations) == 0 {
		panic(pathEnd{"budget", "stopped early: another obligation of this run already reported a violation"})
	}
	rt, _ := x.check([]*T{c}, nil)
	var rf smt.Result
	if rt == smt.Unsat {
		rf = smt.Sat // pc is feasible by construction (or the path is dead and nothing is reported on it)
	} else {
		rf, _ = x.check([]*T{x.B.Not(c)}, nil)
	}
	tOK := rt != smt.Unsat
	fOK := rf != smt.Unsat
	if rt == smt.Unknown || rf == smt.Unknown {
		x.note("feasibility query unknown (branch kept)")
	}
	switch {
	case tOK && fOK:
		x.trace = append(x.trace, decision{b: true})
		x.St.Forks++
	case tOK:
		x.trace = append(x.trace, decision{b: true, done: true})
	case fOK:
		x.trace = append(x.trace, decision{b: false, done: true})
	default:
		panic(pathEnd{"infeasible", "path condition unsatisfiable"})
	}
	x.pos++
	d := x.trace[len(x.trace)-1]
	if d.b {
		x.addPC(c)
	} else {
		x.addPC(x.B.Not(c))
	}
	return d.b
}

// concretize forks over the feasible values of t.
func (x *X) concretize(t *T, what string) uint64 {
	if t.IsConst() {
		return t.Val
	}
	if x.pos < len(x.trace) {
		d := &x.trace[x.pos]
		if d.kind != 1 {
			panic(pathEnd{"unsupported", "nondeterministic replay (decision kind mismatch)"})
		}
		if x.pos == len(x.trace)-1 && d.advance {
			d.advance = false
			var ex []*T
			for _, v := range d.vals {
				ex = append(ex, x.B.Not(x.B.Eq(t, x.B.Const(v, t.W))))
			}
			if len(d.vals) >= x.Cfg.MaxConcVals {
				x.St.Inconclusive = append(x.St.Inconclusive, fmt.Sprintf("concretize %s: more than %d values", what, x.Cfg.MaxConcVals))
				x.trace = x.trace[:len(x.trace)-1]
				panic(pathEnd{"exhausted", ""})
			}
			r, vals := x.check(ex, []*T{t})
			if r != smt.Sat {
				if r == smt.Unknown {
					x.St.Inconclusive = append(x.St.Inconclusive, "concretize "+what+": solver unknown")
				}
				x.trace = x.trace[:len(x.trace)-1]
				panic(pathEnd{"exhausted", ""})
			}
			d.vals = append(d.vals, vals[0])
		}
		x.pos++
		v := d.vals[len(d.vals)-1]
		x.addPC(x.B.Eq(t, x.B.Const(v, t.W)))
		return v
	}
	r, vals := x.check(nil, []*T{t})
	if r != smt.Sat {
		if r == smt.Unknown {
			x.St.Inconclusive = append(x.St.Inconclusive, "concretize "+what+": solver unknown")
		}
		panic(pathEnd{"infeasible", "concretize: pc unsat"})
	}
	x.trace = append(x.trace, decision{kind: 1, vals: []uint64{vals[0]}})
	x.pos++
	x.St.Forks++
	x.addPC(x.B.Eq(t, x.B.Const(vals[0], t.W)))
	return vals[0]
}

// choose explores all n alternatives.
func (x *X) choose(n int) int {
	if n <= 1 {
		return 0
	}
	if x.pos < len(x.trace) {
		d := &x.trace[x.pos]
		if d.kind != 2 {
			panic(pathEnd{"unsupported", "nondeterministic replay (decision kind mismatch)"})
		}
		if x.pos == len(x.trace)-1 && d.advance {
			d.advance = false
			d.vals[0]++
		}
		x.pos++
		return int(d.vals[0])
	}
	x.trace = append(x.trace, decision{kind: 2, vals: []uint64{0}, n: n})
	x.pos++
	x.St.Forks++
	return 0
}

// backtrack prepares the trace for the next path; false when exploration is complete.
func (x *X) backtrack() bool {
	for len(x.trace) > 0 {
		d := &x.trace[len(x.trace)-1]
		switch d.kind {
		case 0:
			if !d.done {
				d.b = !d.b
				d.done = true
				return true
			}
		case 1:
			d.advance = true
			return true
		case 2:
			if int(d.vals[0])+1 < d.n {
				d.advance = true
				return true
			}
		}
		x.trace = x.trace[:len(x.trace)-1]
	}
	return false
}

// checkAssert decides an assertion query, on the one-shot back end if one is configured.
func (x *X) checkAssert(extra []*T, want []*T) (smt.Result, []uint64) {
	if x.Cfg.AssertSolver == "" {
		r, vals := x.check(extra, want)
		if r != smt.Unknown {
			return r, vals
		}
		// the incremental back end gave up: ask the other solvers one-shot before declaring
		// the obligation inconclusive
		as := append(append([]*T{}, x.pc...), extra...)
		for _, kind := range []string{"z3", "cvc5"} {
			t0 := time.Now()
			r2, v2, _ := smt.OneShotValues(kind, x.B, as, want, x.Cfg.AssertTimeoutMs)
			x.AuxQueries++
			x.AuxTime += time.Since(t0)
			switch r2 {
			case smt.Sat:
				x.AuxSat++
				x.S.NUnk--
				x.note("assertion decided by fallback solver " + kind)
				return r2, v2
			case smt.Unsat:
				x.AuxUnsat++
				x.S.NUnk--
				x.note("assertion decided by fallback solver " + kind)
				return r2, v2
			default:
				x.AuxUnk++
			}
		}
		return r, vals
	}
	as := append(append([]*T{}, x.pc...), extra...)
	t0 := time.Now()
	r, vals, msg := smt.OneShotValues(x.Cfg.AssertSolver, x.B, as, want, x.Cfg.AssertTimeoutMs)
	x.AuxQueries++
	x.AuxTime += time.Since(t0)
	switch r {
	case smt.Sat:
		x.AuxSat++
	case smt.Unsat:
		x.AuxUnsat++
	default:
		x.AuxUnk++
		x.note("one-shot back end inconclusive: " + firstLine(msg))
	}
	return r, vals
}

func firstLine(s string) string {
	if i := strings.IndexByte(s, '\n'); i >= 0 {
		s = s[:i]
	}
	if len(s) > 160 {
		s = s[:160]
	}
	return s
}

// replaying reports whether execution is still inside the decision prefix shared with an
// earlier path (everything there has been checked before).
func (x *X) replaying() bool { return x.pos < len(x.trace) }

// gopanic ends the path with a Go run-time panic outcome.
func (x *X) gopanic(msg string) {
	panic(pathEnd{"panic", msg})
}

// ---------------------------------------------------------------------------
// Run

// Run explores all paths of the harness function.
func (x *X) Run(fn *ssa.Function) {
	x.realSleep = fn.Pkg != nil && strings.HasSuffix(fn.Pkg.Pkg.Path(), "/pkg/sleep")
	x.St = Stats{PathKinds: map[string]int{}, Funcs: map[string]bool{}, Reached: map[string]bool{},
		Notes: map[string]int{}, KnownHit: map[string]string{}, StubsUsed: map[string]int{}}
	if x.Cfg.MaxConcVals == 0 {
		x.Cfg.MaxConcVals = 70
	}
	lastProg := time.Now()
	for {
		x.St.Paths++
		if x.Cfg.Trace && time.Since(lastProg) > 10*time.Second {
			lastProg = time.Now()
			fmt.Fprintf(os.Stderr, "  .. %s: paths=%d queries=%d solver=%.1fs steps=%d trace-depth=%d\n", fn.Name(), x.St.Paths, x.S.Queries, x.S.Time.Seconds(), x.St.Steps, len(x.trace))
		}
		kind := x.runPath(fn)
		x.St.PathKinds[kind]++
		if x.St.Paths >= x.Cfg.MaxPaths {
			x.St.Inconclusive = append(x.St.Inconclusive, fmt.Sprintf("path budget %d exhausted", x.Cfg.MaxPaths))
			return
		}
		if kind == "budget" {
			x.St.Inconclusive = append(x.St.Inconclusive, "time budget exhausted")
			return
		}
		if !x.backtrack() {
			return
		}
	}
}

func (x *X) runPath(fn *ssa.Function) (kind string) {
	return x.runPathEntry(func() {
		x.runInits(fn.Pkg)
		x.call(fn, nil, nil)
	})
}

func (x *X) runPathEntry(entry func()) (kind string) {
	x.pos = 0
	x.stack = nil
	x.locSeq = 0
	x.locByID = x.locByID[:0]
	x.chanByID = x.chanByID[:0]
	x.pc = nil
	x.globals = map[*ssa.Global]Loc{}
	x.names = map[string]int{}
	x.inputs = nil
	x.inputSeen = map[string]bool{}
	x.steps = 0
	x.depth = 0
	x.fresh = 0
	x.ghost = map[string]Value{}
	x.mono = nil
	x.clockMax = nil
	x.clockFrozen = false
	x.cutSeen = map[string]int{}
	defer func() {
		if r := recover(); r != nil {
			pe, ok := r.(pathEnd)
			if !ok {
				panic(r)
			}
			kind = pe.kind
			if x.bmc != nil && x.bmc.active && (pe.kind == "panic" || pe.kind == "unwind") {
				// interleaving mode: whether this state is reachable is decided by the model checker
				x.bmcErrEdge(pe.kind, pe.msg)
				kind = "err-edge"
				return
			}
			switch pe.kind {
			case "panic":
				if !x.Cfg.AllowPanic {
					x.reportPanic(pe.msg)
				}
			case "unsupported":
				x.St.Inconclusive = append(x.St.Inconclusive, "unsupported: "+pe.msg)
			case "unwind":
				if x.Cfg.DivergeViolation {
					x.reportDiverge()
				} else {
					x.St.Inconclusive = append(x.St.Inconclusive, "unwinding bound reached: "+pe.msg)
				}
			case "blocked":
				x.note("path ends blocked: " + pe.msg)
			}
		}
	}()
	entry()
	return "return"
}

// reportDiverge: the bounds of this obligation are derived from the input size (every loop
// iteration must consume input), so running past them means the code does not terminate.
func (x *X) reportDiverge() {
	r, vals := x.check(nil, x.inputs)
	if r == smt.Unsat {
		return
	}
	if r == smt.Unknown {
		x.St.Inconclusive = append(x.St.Inconclusive, "divergence reachability unknown")
		return
	}
	x.St.Violations = append(x.St.Violations, Violation{Msg: "the operation does not terminate on this input (loop bound derived from the input size exceeded)", Kind: "diverge",
		Model: x.modelOf(vals), Where: x.where(), PathNo: x.St.Paths})
}

func (x *X) reportPanic(msg string) {
	r, vals := x.check(nil, x.inputs)
	if r == smt.Unsat {
		return
	}
	if r == smt.Unknown {
		x.St.Inconclusive = append(x.St.Inconclusive, "panic reachability unknown: "+msg)
		return
	}
	x.St.Violations = append(x.St.Violations, Violation{Msg: "panic: " + msg, Kind: "panic",
		Model: x.modelOf(vals), Where: x.where(), PathNo: x.St.Paths})
}

func (x *X) modelOf(vals []uint64) map[string]uint64 {
	m := map[string]uint64{}
	for i, in := range x.inputs {
		if in.Op == smt.OpVar {
			m[in.Name] = vals[i]
		}
	}
	// UF applications: evaluate argument terms under the model
	for i, in := range x.inputs {
		if in.Op == smt.OpUF {
			k := in.Name + "("
			for j, a := range in.Args {
				if j > 0 {
					k += ","
				}
				k += fmt.Sprint(x.B.Eval(a, m))
			}
			m[k+")"] = vals[i]
		}
	}
	return m
}

func (x *X) runInits(pkg *ssa.Package) {
	if pkg == nil {
		return
	}
	initFn := pkg.Func("init")
	if initFn != nil {
		x.call(initFn, nil, nil)
	}
}

// ---------------------------------------------------------------------------
// Frames

type frame struct {
	fn     *ssa.Function
	env    map[ssa.Value]Value
	defers []func()
	visits map[int]int
	result Value
	blk    *ssa.BasicBlock // current position (for the interleaving mode)
	idx    int
}

func (x *X) get(fr *frame, v ssa.Value) Value {
	switch v := v.(type) {
	case *ssa.Const:
		return x.constVal(v)
	case *ssa.Global:
		return Pointer{L: x.globalLoc(v)}
	case *ssa.Function:
		return FuncVal{Fn: v}
	case *ssa.Builtin:
		x.unsupported("builtin as value: " + v.Name())
	}
	r, ok := fr.env[v]
	if !ok {
		x.unsupported("use of undefined SSA value " + v.Name())
	}
	return r
}

func (x *X) globalLoc(g *ssa.Global) Loc {
	if l, ok := x.globals[g]; ok {
		return l
	}
	l := x.zeroLoc(g.Type().(*types.Pointer).Elem())
	x.globals[g] = l
	if g.Pkg != nil && !x.E.InModule(g.Pkg.Pkg.Path()) && !strings.HasPrefix(g.Name(), "init$") {
		x.note("std global used with zero value: " + g.String())
	}
	return l
}

func (x *X) constVal(c *ssa.Const) Value {
	t := c.Type()
	if c.Value == nil {
		return x.zeroValue(t)
	}
	if w, _, ok := intInfo(t); ok {
		if c.Value.Kind() == constant.Int {
			if u, ok := constant.Uint64Val(c.Value); ok {
				return x.B.Const(u, w)
			}
			i, _ := constant.Int64Val(c.Value)
			return x.B.Const(uint64(i), w)
		}
		// float/complex const typed as int after conversion
		f, _ := constant.Float64Val(constant.ToFloat(c.Value))
		return x.B.Const(uint64(int64(f)), w)
	}
	switch {
	case isBool(t):
		return x.B.Bool(constant.BoolVal(c.Value))
	case isString(t):
		s := constant.StringVal(c.Value)
		return x.strConst(s)
	case isFloat(t):
		f, _ := constant.Float64Val(constant.ToFloat(c.Value))
		return x.B.Const(math.Float64bits(f), 64)
	}
	x.unsupported("constant of type " + t.String())
	return nil
}

func (x *X) strConst(s string) String {
	r := String{B: make([]*T, len(s))}
	for i := 0; i < len(s); i++ {
		r.B[i] = x.B.Const(uint64(s[i]), 8)
	}
	return r
}

func strIsConst(s String) (string, bool) {
	bs := make([]byte, len(s.B))
	for i, b := range s.B {
		if !b.IsConst() {
			return "", false
		}
		bs[i] = byte(b.Val)
	}
	return string(bs), true
}

// call executes fn with args (receiver first for methods).
func (x *X) call(fn *ssa.Function, args []Value, bind []Value) Value {
	if fn.Blocks == nil {
		// a body-less function of the module (runtime linkname) can be given a model by the
		// harness: function vh_<name> of the same package
		if fn.Pkg != nil && x.E.InModule(fn.Pkg.Pkg.Path()) {
			if m := fn.Pkg.Func("vh_" + fn.Name()); m != nil && m.Blocks != nil {
				x.St.StubsUsed[fn.String()+" -> harness model vh_"+fn.Name()]++
				return x.call(m, args, nil)
			}
		}
		x.unsupported("call to function without body: " + fn.String())
	}
	x.depth++
	if x.depth > 200 {
		x.unsupported("call depth > 200 in " + fn.String())
	}
	defer func() { x.depth-- }()
	x.St.Funcs[fn.String()] = true
	fr := &frame{fn: fn, env: make(map[ssa.Value]Value, 32), visits: map[int]int{}}
	for i, p := range fn.Params {
		if i >= len(args) {
			x.unsupported("missing argument in call to " + fn.String())
		}
		fr.env[p] = args[i]
	}
	for i, fv := range fn.FreeVars {
		fr.env[fv] = bind[i]
	}
	x.stack = append(x.stack, fr)
	defer func() { x.stack = x.stack[:len(x.stack)-1] }()
	return x.runFrame(fr, fn.Blocks[0], 0, nil)
}

// runFrame executes fr from instruction index start of block blk (start > 0: resuming in the
// middle of a block, phis and cut-points of that block are not re-evaluated).
func (x *X) runFrame(fr *frame, blk *ssa.BasicBlock, start int, prev *ssa.BasicBlock) Value {
	fn := fr.fn
	symArrive := false
	for {
		// only arrivals through a solver-decided branch count against the unwinding bound;
		// loops with concrete trip counts are bounded by the step budget
		if symArrive {
			fr.visits[blk.Index]++
		}
		symArrive = false
		if n := fr.visits[blk.Index]; n > x.St.MaxUnwind {
			x.St.MaxUnwind = n
		}
		if fr.visits[blk.Index] > x.Cfg.Unwind {
			panic(pathEnd{"unwind", fmt.Sprintf("%s block %d visited > %d times", fn.String(), blk.Index, x.Cfg.Unwind)})
		}
		if start == 0 {
			if nb, handled := x.atCut(fr, blk, prev); handled {
				if nb == nil {
					return fr.result
				}
				prev, blk = blk, nb
				continue
			}
		}
		// phis first (parallel assignment)
		nphi := 0
		var phiVals []Value
		for _, ins := range blk.Instrs {
			phi, ok := ins.(*ssa.Phi)
			if !ok {
				break
			}
			if start > 0 {
				nphi++
				continue
			}
			nphi++
			idx := -1
			for i, p := range blk.Preds {
				if p == prev {
					idx = i
					break
				}
			}
			if idx < 0 {
				x.unsupported("phi without matching predecessor")
			}
			phiVals = append(phiVals, x.get(fr, phi.Edges[idx]))
		}
		if start == 0 {
			for i := 0; i < nphi; i++ {
				fr.env[blk.Instrs[i].(*ssa.Phi)] = phiVals[i]
			}
		}
		first := nphi
		if start > first {
			first = start
		}
		start = 0
		var next *ssa.BasicBlock
		for ii, ins := range blk.Instrs[first:] {
			fr.blk, fr.idx = blk, first+ii
			x.steps++
			x.St.Steps++
			if x.steps > x.Cfg.MaxSteps {
				panic(pathEnd{"unwind", fmt.Sprintf("step budget %d exceeded", x.Cfg.MaxSteps)})
			}
			x.curInstr = ins
			switch ins := ins.(type) {
			case *ssa.If:
				c := x.get(fr, ins.Cond).(*T)
				symArrive = !c.IsConst()
				if x.branch(c) {
					next = blk.Succs[0]
				} else {
					next = blk.Succs[1]
				}
			case *ssa.Jump:
				next = blk.Succs[0]
			case *ssa.Return:
				switch len(ins.Results) {
				case 0:
					fr.result = nil
				case 1:
					fr.result = x.get(fr, ins.Results[0])
				default:
					tv := make(Tuple, len(ins.Results))
					for i, r := range ins.Results {
						tv[i] = x.get(fr, r)
					}
					fr.result = tv
				}
				return fr.result
			case *ssa.Panic:
				v := x.get(fr, ins.X)
				msg := "explicit panic"
				if iv, ok := v.(Iface); ok {
					if s, ok := iv.V.(String); ok {
						if cs, ok := strIsConst(s); ok {
							msg = "explicit panic: " + cs
						}
					}
				}
				x.gopanic(msg)
			case *ssa.RunDefers:
				for i := len(fr.defers) - 1; i >= 0; i-- {
					fr.defers[i]()
				}
				fr.defers = nil
			default:
				x.exec(fr, ins)
			}
		}
		if next == nil {
			x.unsupported("block without terminator")
		}
		prev, blk = blk, next
	}
}

func (x *X) exec(fr *frame, ins ssa.Instruction) {
	switch ins := ins.(type) {
	case *ssa.DebugRef:
	case *ssa.Alloc:
		fr.env[ins] = Pointer{L: x.zeroLoc(ins.Type().(*types.Pointer).Elem())}
	case *ssa.UnOp:
		fr.env[ins] = x.unop(fr, ins)
	case *ssa.BinOp:
		fr.env[ins] = x.binop(ins.Op, x.get(fr, ins.X), x.get(fr, ins.Y), ins.X.Type(), ins.Y.Type())
	case *ssa.Store:
		x.store(x.get(fr, ins.Addr).(Pointer), x.get(fr, ins.Val))
	case *ssa.FieldAddr:
		p := x.get(fr, ins.X).(Pointer)
		if p.IsNil() {
			x.gopanic("nil pointer dereference")
		}
		sl, ok := p.L.(*StructLoc)
		if !ok {
			x.unsupported(fmt.Sprintf("FieldAddr on %T", p.L))
		}
		fr.env[ins] = Pointer{L: sl.F[ins.Field]}
	case *ssa.Field:
		fr.env[ins] = x.get(fr, ins.X).(StructVal).F[ins.Field]
	case *ssa.IndexAddr:
		fr.env[ins] = x.indexAddr(fr, ins)
	case *ssa.Index:
		fr.env[ins] = x.index(fr, ins)
	case *ssa.Slice:
		fr.env[ins] = x.sliceOp(fr, ins)
	case *ssa.Call:
		fr.env[ins] = x.callInstr(fr, ins.Common(), ins)
	case *ssa.Defer:
		cc := ins.Common()
		// evaluate now, run later
		fnv, args := x.evalCall(fr, cc)
		fr.defers = append(fr.defers, func() { x.invoke(fnv, args, cc, ins) })
	case *ssa.Go:
		x.note("go statement not executed: " + ins.Common().String())
		x.ghostAppend("go", x.strConst(ins.Common().String()))
	case *ssa.Extract:
		fr.env[ins] = x.get(fr, ins.Tuple).(Tuple)[ins.Index]
	case *ssa.Convert:
		fr.env[ins] = x.convert(x.get(fr, ins.X), ins.X.Type(), ins.Type())
	case *ssa.ChangeType:
		fr.env[ins] = x.get(fr, ins.X)
	case *ssa.ChangeInterface:
		fr.env[ins] = x.get(fr, ins.X)
	case *ssa.MakeInterface:
		fr.env[ins] = Iface{T: ins.X.Type(), V: x.get(fr, ins.X)}
	case *ssa.TypeAssert:
		fr.env[ins] = x.typeAssert(fr, ins)
	case *ssa.MakeSlice:
		fr.env[ins] = x.makeSlice(fr, ins)
	case *ssa.MakeMap:
		mt := ins.Type().Underlying().(*types.Map)
		fr.env[ins] = MapRef{M: &MapObj{KeyT: mt.Key(), ValT: mt.Elem()}}
	case *ssa.MakeChan:
		n := x.concretize(x.toInt64(x.get(fr, ins.Size), ins.Size.Type()), "chan size")
		co := &ChanObj{Cap: int(n), ElemT: ins.Type().Underlying().(*types.Chan).Elem()}
		if x.bmc != nil {
			x.chanByID = append(x.chanByID, co)
			co.ID = len(x.chanByID)
		}
		fr.env[ins] = ChanRef{C: co}
	case *ssa.MakeClosure:
		fv := FuncVal{Fn: ins.Fn.(*ssa.Function)}
		for _, b := range ins.Bindings {
			fv.Bind = append(fv.Bind, x.get(fr, b))
		}
		fr.env[ins] = fv
	case *ssa.MapUpdate:
		x.mapUpdate(x.get(fr, ins.Map).(MapRef), x.get(fr, ins.Key), x.get(fr, ins.Value))
	case *ssa.Lookup:
		fr.env[ins] = x.lookup(fr, ins)
	case *ssa.Range:
		switch v := x.get(fr, ins.X).(type) {
		case MapRef:
			it := &mapIter{m: v.M}
			if v.M != nil {
				it.snap = append(it.snap, v.M.E...)
			}
			fr.env[ins] = it
		case String:
			fr.env[ins] = &mapIter{str: &v}
		default:
			x.unsupported("range over " + fmt.Sprintf("%T", v))
		}
	case *ssa.Next:
		fr.env[ins] = x.next(fr, ins)
	case *ssa.Send:
		x.bmcAtVisible("chan send")
		x.chanSend(x.get(fr, ins.Chan).(ChanRef), x.get(fr, ins.X))
	case *ssa.Select:
		x.bmcAtVisible("select")
		fr.env[ins] = x.selectOp(fr, ins)
	case *ssa.SliceToArrayPointer:
		s := x.get(fr, ins.X).(Slice)
		n := ins.Type().(*types.Pointer).Elem().Underlying().(*types.Array).Len()
		if !x.branch(x.B.ULE(x.c64(uint64(n)), s.Len)) {
			x.gopanic("slice to array pointer: length too short")
		}
		off := x.concretize(s.Off, "slice-to-array offset")
		sub := &ArrayLoc{E: s.Arr.E[off : off+uint64(n)], Elem: s.Arr.Elem}
		fr.env[ins] = Pointer{L: sub}
	default:
		x.unsupported(fmt.Sprintf("instruction %T", ins))
	}
}

// toInt64 converts an integer value of type t to a 64-bit term (sign- or zero-extended).
func (x *X) toInt64(v Value, t types.Type) *T {
	tv, ok := v.(*T)
	if !ok {
		x.unsupported(fmt.Sprintf("integer expected, got %T", v))
	}
	_, s, _ := intInfo(t)
	return x.B.Resize(tv, 64, s)
}

func (x *X) unop(fr *frame, ins *ssa.UnOp) Value {
	v := x.get(fr, ins.X)
	switch ins.Op {
	case token.MUL:
		return x.load(v.(Pointer))
	case token.NOT:
		return x.B.Not(v.(*T))
	case token.SUB:
		if isFloat(ins.X.Type()) {
			return x.freshVar("fneg", 64)
		}
		return x.B.Neg(v.(*T))
	case token.XOR:
		return x.B.BNot(v.(*T))
	case token.ARROW:
		x.bmcAtVisible("chan receive")
		r, ok := x.chanRecv(v.(ChanRef))
		if ins.CommaOk {
			return Tuple{r, x.B.Bool(ok)}
		}
		return r
	}
	x.unsupported("unop " + ins.Op.String())
	return nil
}

func (x *X) freshVar(prefix string, w int) *T {
	x.fresh++
	return x.B.Var(fmt.Sprintf("%s!%d", prefix, x.fresh), w)
}

func (x *X) binop(op token.Token, a, b Value, ta, tb types.Type) Value {
	switch op {
	case token.EQL:
		return x.eq(x.coerceNil(a, b), x.coerceNil(b, a))
	case token.NEQ:
		return x.B.Not(x.eq(x.coerceNil(a, b), x.coerceNil(b, a)))
	}
	if as, ok := a.(String); ok {
		bs := b.(String)
		switch op {
		case token.ADD:
			return String{B: append(append([]*T{}, as.B...), bs.B...)}
		case token.LSS, token.LEQ, token.GTR, token.GEQ:
			return x.strCmp(op, as, bs)
		}
		x.unsupported("string binop " + op.String())
	}
	at, ok := a.(*T)
	if !ok {
		x.unsupported(fmt.Sprintf("binop %s on %T", op, a))
	}
	bt := b.(*T)
	if isFloat(ta) {
		x.note("floating-point operation havocked")
		switch op {
		case token.LSS, token.LEQ, token.GTR, token.GEQ:
			return x.freshVar("fcmp", 0)
		}
		return x.freshVar("fop", 64)
	}
	if at.W == 0 { // bool &&/|| are lowered to control flow; &,| on bools do not occur
		x.unsupported("binop on bool: " + op.String())
	}
	_, signed, _ := intInfo(ta)
	B := x.B
	switch op {
	case token.ADD:
		return B.Add(at, bt)
	case token.SUB:
		return B.Sub(at, bt)
	case token.MUL:
		return B.Mul(at, bt)
	case token.QUO, token.REM:
		if !x.branch(B.Not(B.Eq(bt, B.Const(0, bt.W)))) {
			x.gopanic("integer divide by zero")
		}
		if op == token.QUO {
			if signed {
				return B.SDiv(at, bt)
			}
			return B.UDiv(at, bt)
		}
		if signed {
			return B.SRem(at, bt)
		}
		return B.URem(at, bt)
	case token.AND:
		return B.BAnd(at, bt)
	case token.OR:
		return B.BOr(at, bt)
	case token.XOR:
		return B.BXor(at, bt)
	case token.AND_NOT:
		return B.BAnd(at, B.BNot(bt))
	case token.SHL, token.SHR:
		_, bsigned, _ := intInfo(tb)
		if bsigned {
			if !x.branch(B.SLE(B.Const(0, bt.W), bt)) {
				x.gopanic("negative shift amount")
			}
		}
		// bring the count to the operand width, saturating
		var cnt *T
		if bt.W > at.W {
			big := B.ULE(B.Const(uint64(at.W), bt.W), bt)
			cnt = B.Ite(big, B.Const(uint64(at.W), at.W), B.Extract(bt, at.W-1, 0))
		} else {
			cnt = B.ZExt(bt, at.W)
		}
		if op == token.SHL {
			return B.Shl(at, cnt)
		}
		if signed {
			return B.AShr(at, cnt)
		}
		return B.LShr(at, cnt)
	case token.LSS:
		if signed {
			return B.SLT(at, bt)
		}
		return B.ULT(at, bt)
	case token.LEQ:
		if signed {
			return B.SLE(at, bt)
		}
		return B.ULE(at, bt)
	case token.GTR:
		if signed {
			return B.SLT(bt, at)
		}
		return B.ULT(bt, at)
	case token.GEQ:
		if signed {
			return B.SLE(bt, at)
		}
		return B.ULE(bt, at)
	}
	x.unsupported("binop " + op.String())
	return nil
}

// coerceNil makes an untyped-nil Pointer comparable with the other operand's kind.
func (x *X) coerceNil(a, other Value) Value {
	p, ok := a.(Pointer)
	if !ok || !p.IsNil() {
		return a
	}
	switch other.(type) {
	case Slice:
		return Slice{}
	case MapRef:
		return MapRef{}
	case ChanRef:
		return ChanRef{}
	case FuncVal:
		return FuncVal{}
	case Iface:
		return Iface{}
	}
	return a
}

func (x *X) strCmp(op token.Token, a, b String) *T {
	// lexicographic a < b
	B := x.B
	n := len(a.B)
	if len(b.B) < n {
		n = len(b.B)
	}
	// lt = exists i: prefix equal and a[i] < b[i], or prefix(n) equal and len(a) < len(b)
	var lt *T = B.Bool(len(a.B) < len(b.B))
	eqAll := B.True()
	_ = eqAll
	for i := n - 1; i >= 0; i-- {
		lt = B.Ite(B.Eq(a.B[i], b.B[i]), lt, B.ULT(a.B[i], b.B[i]))
	}
	eq := x.eq(a, b)
	switch op {
	case token.LSS:
		return lt
	case token.LEQ:
		return B.Or(lt, eq)
	case token.GTR:
		return B.And(B.Not(lt), B.Not(eq))
	default:
		return B.Not(lt)
	}
}

func (x *X) convert(v Value, from, to types.Type) Value {
	fw, fs, fok := intInfo(from)
	tw, _, tok := intInfo(to)
	switch {
	case fok && tok:
		_ = fw
		return x.B.Resize(v.(*T), tw, fs)
	case fok && isFloat(to), isFloat(from) && tok, isFloat(from) && isFloat(to):
		x.note("floating-point conversion havocked")
		if tok {
			return x.freshVar("f2i", tw)
		}
		return x.freshVar("i2f", 64)
	}
	fu, tu := from.Underlying(), to.Underlying()
	if isString(to) {
		switch src := v.(type) {
		case Slice: // []byte -> string
			n := int(x.concretize(src.Len, "string([]byte) length"))
			s := String{B: make([]*T, n)}
			for i := 0; i < n; i++ {
				s.B[i] = x.sliceElemTerm(src, i)
			}
			return s
		case String:
			return src
		case *T:
			if src.IsConst() {
				return x.strConst(string(rune(src.Val)))
			}
		}
		x.unsupported("conversion to string from " + from.String())
	}
	if isString(from) {
		if st, ok := tu.(*types.Slice); ok {
			s := v.(String)
			if w, _, ok := intInfo(st.Elem()); ok && w == 8 {
				arr := x.newArray(st.Elem(), len(s.B))
				for i, b := range s.B {
					arr.E[i].(*ScalarLoc).V = b
				}
				n := x.c64(uint64(len(s.B)))
				return Slice{Arr: arr, Off: x.c64(0), Len: n, Cap: n}
			}
		}
		x.unsupported("conversion from string to " + to.String())
	}
	// pointer <-> unsafe.Pointer, and identical-underlying conversions
	switch fu.(type) {
	case *types.Pointer, *types.Basic:
		if _, ok := v.(Pointer); ok {
			return v
		}
	}
	_ = tu
	x.unsupported("conversion " + from.String() + " -> " + to.String())
	return nil
}

func (x *X) sliceElemTerm(s Slice, i int) *T {
	pos := x.B.Add(s.Off, x.c64(uint64(i)))
	return x.selectElem(s.Arr, pos)
}

func (x *X) indexAddr(fr *frame, ins *ssa.IndexAddr) Value {
	base := x.get(fr, ins.X)
	idx := x.toInt64(x.get(fr, ins.Index), ins.Index.Type())
	var arr *ArrayLoc
	var off, ln *T
	switch b := base.(type) {
	case Slice:
		arr, off, ln = b.Arr, b.Off, b.Len
	case Pointer:
		if b.IsNil() {
			x.gopanic("nil pointer dereference")
		}
		a, ok := b.L.(*ArrayLoc)
		if !ok {
			x.unsupported("IndexAddr on non-array pointer")
		}
		arr, off, ln = a, x.c64(0), x.c64(uint64(len(a.E)))
	default:
		x.unsupported(fmt.Sprintf("IndexAddr on %T", base))
	}
	if !x.branch(x.B.ULT(idx, ln)) {
		x.gopanic("index out of range")
	}
	pos := x.B.Add(off, idx)
	return x.elemPtr(arr, pos)
}

func (x *X) elemPtr(arr *ArrayLoc, pos *T) Pointer {
	if pos.IsConst() {
		if pos.Val >= uint64(len(arr.E)) {
			x.unsupported("internal: element position beyond backing array")
		}
		return Pointer{L: arr.E[pos.Val]}
	}
	if termElem(arr.Elem) {
		return Pointer{Arr: arr, Idx: pos}
	}
	k := x.concretize(pos, "index into array of composite elements")
	if k >= uint64(len(arr.E)) {
		x.unsupported("internal: element position beyond backing array")
	}
	return Pointer{L: arr.E[k]}
}

func (x *X) index(fr *frame, ins *ssa.Index) Value {
	base := x.get(fr, ins.X)
	idx := x.toInt64(x.get(fr, ins.Index), ins.Index.Type())
	switch b := base.(type) {
	case String:
		if !x.branch(x.B.ULT(idx, x.c64(uint64(len(b.B))))) {
			x.gopanic("index out of range")
		}
		if idx.IsConst() {
			return b.B[idx.Val]
		}
		r := b.B[len(b.B)-1]
		for k := len(b.B) - 2; k >= 0; k-- {
			r = x.B.Ite(x.B.Eq(idx, x.c64(uint64(k))), b.B[k], r)
		}
		return r
	case ArrayVal:
		if !x.branch(x.B.ULT(idx, x.c64(uint64(len(b.E))))) {
			x.gopanic("index out of range")
		}
		k := x.concretize(idx, "index into array value")
		return b.E[k]
	}
	x.unsupported(fmt.Sprintf("Index on %T", base))
	return nil
}

func (x *X) sliceOp(fr *frame, ins *ssa.Slice) Value {
	base := x.get(fr, ins.X)
	B := x.B
	opt := func(v ssa.Value) *T {
		if v == nil {
			return nil
		}
		return x.toInt64(x.get(fr, v), v.Type())
	}
	lo, hi, mx := opt(ins.Low), opt(ins.High), opt(ins.Max)
	if lo == nil {
		lo = x.c64(0)
	}
	switch b := base.(type) {
	case String:
		if hi == nil {
			hi = x.c64(uint64(len(b.B)))
		}
		ok := B.And(B.ULE(lo, hi), B.ULE(hi, x.c64(uint64(len(b.B)))))
		if !x.branch(ok) {
			x.gopanic("slice bounds out of range")
		}
		l := x.concretize(lo, "string slice low")
		h := x.concretize(hi, "string slice high")
		return String{B: b.B[l:h]}
	case Slice:
		if hi == nil {
			hi = b.Len
		}
		if mx == nil {
			mx = b.Cap
		}
		ok := B.And(B.ULE(lo, hi), B.ULE(hi, mx), B.ULE(mx, b.Cap))
		if !x.branch(ok) {
			x.gopanic("slice bounds out of range")
		}
		if b.Arr == nil {
			return b
		}
		return Slice{Arr: b.Arr, Off: B.Add(b.Off, lo), Len: B.Sub(hi, lo), Cap: B.Sub(mx, lo)}
	case Pointer:
		if b.IsNil() {
			x.gopanic("nil pointer dereference")
		}
		a, isArr := b.L.(*ArrayLoc)
		if !isArr {
			x.unsupported("Slice of non-array pointer")
		}
		n := x.c64(uint64(len(a.E)))
		if hi == nil {
			hi = n
		}
		if mx == nil {
			mx = n
		}
		ok := B.And(B.ULE(lo, hi), B.ULE(hi, mx), B.ULE(mx, n))
		if !x.branch(ok) {
			x.gopanic("slice bounds out of range")
		}
		return Slice{Arr: a, Off: lo, Len: B.Sub(hi, lo), Cap: B.Sub(mx, lo)}
	}
	x.unsupported(fmt.Sprintf("Slice of %T", base))
	return nil
}

func (x *X) makeSlice(fr *frame, ins *ssa.MakeSlice) Value {
	ln := x.toInt64(x.get(fr, ins.Len), ins.Len.Type())
	cp := x.toInt64(x.get(fr, ins.Cap), ins.Cap.Type())
	if !x.branch(x.B.And(x.B.SLE(x.c64(0), ln), x.B.SLE(ln, cp))) {
		x.gopanic("makeslice: len/cap out of range")
	}
	c := x.concretize(cp, "make cap")
	if c > 1<<17 {
		x.unsupported(fmt.Sprintf("make with capacity %d", c))
	}
	elem := ins.Type().Underlying().(*types.Slice).Elem()
	arr := x.newArray(elem, int(c))
	return Slice{Arr: arr, Off: x.c64(0), Len: ln, Cap: x.c64(c)}
}

func (x *X) typeAssert(fr *frame, ins *ssa.TypeAssert) Value {
	iv, ok := x.get(fr, ins.X).(Iface)
	if !ok {
		x.unsupported("TypeAssert on non-interface")
	}
	var match bool
	var res Value
	if it, isI := ins.AssertedType.Underlying().(*types.Interface); isI {
		match = iv.T != nil && types.Implements(iv.T, it)
		res = iv
	} else {
		match = iv.T != nil && types.Identical(iv.T, ins.AssertedType)
		res = iv.V
	}
	if ins.CommaOk {
		if !match {
			res = x.zeroValue(ins.AssertedType)
		}
		return Tuple{res, x.B.Bool(match)}
	}
	if !match {
		x.gopanic("interface conversion: type assertion failed")
	}
	return res
}

// ---------------------------------------------------------------------------
// Maps

func (x *X) mapFind(m *MapObj, k Value) *mapEntry {
	for _, e := range m.E {
		if x.branch(x.eq(k, e.K)) {
			return e
		}
	}
	return nil
}

func (x *X) mapUpdate(mr MapRef, k, v Value) {
	if mr.M == nil {
		x.gopanic("assignment to entry in nil map")
	}
	if e := x.mapFind(mr.M, k); e != nil {
		e.V = v
		return
	}
	mr.M.E = append(mr.M.E, &mapEntry{K: k, V: v})
}

func (x *X) mapDelete(mr MapRef, k Value) {
	if mr.M == nil {
		return
	}
	if e := x.mapFind(mr.M, k); e != nil {
		for i, f := range mr.M.E {
			if f == e {
				mr.M.E = append(append([]*mapEntry{}, mr.M.E[:i]...), mr.M.E[i+1:]...)
				break
			}
		}
	}
}

func (x *X) lookup(fr *frame, ins *ssa.Lookup) Value {
	base := x.get(fr, ins.X)
	if s, ok := base.(String); ok {
		idx := x.toInt64(x.get(fr, ins.Index), ins.Index.Type())
		if !x.branch(x.B.ULT(idx, x.c64(uint64(len(s.B))))) {
			x.gopanic("index out of range")
		}
		if idx.IsConst() {
			return s.B[idx.Val]
		}
		r := s.B[len(s.B)-1]
		for k := len(s.B) - 2; k >= 0; k-- {
			r = x.B.Ite(x.B.Eq(idx, x.c64(uint64(k))), s.B[k], r)
		}
		return r
	}
	mr := base.(MapRef)
	k := x.get(fr, ins.Index)
	vt := ins.X.Type().Underlying().(*types.Map).Elem()
	var e *mapEntry
	if mr.M != nil {
		e = x.mapFind(mr.M, k)
	}
	var v Value
	if e != nil {
		v = e.V
	} else {
		v = x.zeroValue(vt)
	}
	if ins.CommaOk {
		return Tuple{v, x.B.Bool(e != nil)}
	}
	return v
}

func (x *X) next(fr *frame, ins *ssa.Next) Value {
	it := x.get(fr, ins.Iter).(*mapIter)
	if ins.IsString {
		s := it.str
		if it.i >= len(s.B) {
			return Tuple{x.B.False(), x.c64(0), x.B.Const(0, 32)}
		}
		b := s.B[it.i]
		if !b.IsConst() || b.Val >= 0x80 {
			// restrict to ASCII: symbolic bytes are assumed < 0x80 on this path
			if !x.branch(x.B.ULT(b, x.B.Const(0x80, 8))) {
				x.unsupported("range over string with non-ASCII byte")
			}
		}
		r := Tuple{x.B.True(), x.c64(uint64(it.i)), x.B.ZExt(b, 32)}
		it.i++
		return r
	}
	for it.i < len(it.snap) {
		e := it.snap[it.i]
		it.i++
		// skip entries deleted during iteration
		live := false
		for _, f := range it.m.E {
			if f == e {
				live = true
			}
		}
		if live {
			return Tuple{x.B.True(), e.K, e.V}
		}
	}
	mt := ins.Iter.(*ssa.Range).X.Type().Underlying().(*types.Map)
	return Tuple{x.B.False(), x.zeroValue(mt.Key()), x.zeroValue(mt.Elem())}
}

// ---------------------------------------------------------------------------
// Channels (sequential model)

func (x *X) chanSend(c ChanRef, v Value) {
	if c.C == nil {
		panic(pathEnd{"blocked", "send on nil channel"})
	}
	if c.C.Count != nil {
		if !x.branch(x.B.ULT(c.C.Count, x.B.Const(uint64(c.C.Cap), 8))) {
			panic(pathEnd{"blocked", "send on full channel"})
		}
		c.C.Count = x.B.Add(c.C.Count, x.B.Const(1, 8))
		return
	}
	if c.C.Closed {
		x.gopanic("send on closed channel")
	}
	if len(c.C.Buf) >= c.C.Cap {
		panic(pathEnd{"blocked", "send on full channel"})
	}
	c.C.Buf = append(c.C.Buf, v)
}

func (x *X) chanRecv(c ChanRef) (Value, bool) {
	if c.C == nil {
		panic(pathEnd{"blocked", "receive from nil channel"})
	}
	if c.C.Count != nil {
		if !x.branch(x.B.Not(x.B.Eq(c.C.Count, x.B.Const(0, 8)))) {
			panic(pathEnd{"blocked", "receive from empty channel"})
		}
		c.C.Count = x.B.Sub(c.C.Count, x.B.Const(1, 8))
		return x.zeroValue(c.C.ElemT), true
	}
	if len(c.C.Buf) > 0 {
		v := c.C.Buf[0]
		c.C.Buf = append([]Value{}, c.C.Buf[1:]...)
		return v, true
	}
	if c.C.Closed {
		return x.zeroValue(c.C.ElemT), false
	}
	panic(pathEnd{"blocked", "receive from empty channel"})
}

func (x *X) selectOp(fr *frame, ins *ssa.Select) Value {
	if len(ins.States) == 1 && !ins.Blocking {
		if c := x.get(fr, ins.States[0].Chan).(ChanRef); c.C != nil && c.C.Count != nil {
			st := ins.States[0]
			res := Tuple{nil, x.B.False()}
			if st.Dir == types.RecvOnly {
				res = append(res, x.zeroValue(c.C.ElemT))
				if x.branch(x.B.Not(x.B.Eq(c.C.Count, x.B.Const(0, 8)))) {
					c.C.Count = x.B.Sub(c.C.Count, x.B.Const(1, 8))
					res[0], res[1] = x.c64(0), x.B.True()
					return res
				}
			} else if x.branch(x.B.ULT(c.C.Count, x.B.Const(uint64(c.C.Cap), 8))) {
				c.C.Count = x.B.Add(c.C.Count, x.B.Const(1, 8))
				res[0] = x.c64(0)
				return res
			}
			res[0] = x.c64(^uint64(0))
			return res
		}
	}
	var ready []int
	for i, st := range ins.States {
		c := x.get(fr, st.Chan).(ChanRef)
		if c.C == nil {
			continue
		}
		if st.Dir == types.SendOnly {
			if c.C.Closed || len(c.C.Buf) < c.C.Cap {
				ready = append(ready, i)
			}
		} else if len(c.C.Buf) > 0 || c.C.Closed {
			ready = append(ready, i)
		}
	}
	res := Tuple{nil, x.B.False()}
	for _, st := range ins.States {
		if st.Dir == types.RecvOnly {
			res = append(res, x.zeroValue(st.Chan.Type().Underlying().(*types.Chan).Elem()))
		}
	}
	if len(ready) == 0 {
		if ins.Blocking {
			panic(pathEnd{"blocked", "select with no ready case"})
		}
		res[0] = x.c64(^uint64(0))
		return res
	}
	pick := ready[x.choose(len(ready))]
	st := ins.States[pick]
	c := x.get(fr, st.Chan).(ChanRef)
	res[0] = x.c64(uint64(pick))
	if st.Dir == types.SendOnly {
		x.chanSend(c, x.get(fr, st.Send))
	} else {
		v, ok := x.chanRecv(c)
		res[1] = x.B.Bool(ok)
		ri := 2
		for j, s2 := range ins.States {
			if s2.Dir == types.RecvOnly {
				if j == pick {
					res[ri] = v
				}
				ri++
			}
		}
	}
	return res
}

// ---------------------------------------------------------------------------
// Calls

func (x *X) evalCall(fr *frame, cc *ssa.CallCommon) (Value, []Value) {
	var args []Value
	if cc.IsInvoke() {
		recv := x.get(fr, cc.Value)
		args = append(args, recv)
		for _, a := range cc.Args {
			args = append(args, x.get(fr, a))
		}
		return nil, args
	}
	for _, a := range cc.Args {
		args = append(args, x.get(fr, a))
	}
	switch v := cc.Value.(type) {
	case *ssa.Builtin:
		return v, args
	case *ssa.Function:
		return FuncVal{Fn: v}, args
	}
	return x.get(fr, cc.Value), args
}

func (x *X) callInstr(fr *frame, cc *ssa.CallCommon, site ssa.Instruction) Value {
	fnv, args := x.evalCall(fr, cc)
	return x.invoke(fnv, args, cc, site)
}

func (x *X) invoke(fnv Value, args []Value, cc *ssa.CallCommon, site ssa.Instruction) Value {
	saved := x.curInstr
	defer func() { x.curInstr = saved }()
	if cc.IsInvoke() {
		iv, ok := args[0].(Iface)
		if !ok {
			x.unsupported(fmt.Sprintf("invoke on %T", args[0]))
		}
		if iv.T == nil {
			x.gopanic("nil pointer dereference (method call on nil interface)")
		}
		ms := x.E.Prog.MethodSets.MethodSet(iv.T)
		sel := ms.Lookup(cc.Method.Pkg(), cc.Method.Name())
		if sel == nil {
			x.unsupported("method " + cc.Method.Name() + " not found on " + iv.T.String())
		}
		fn := x.E.Prog.MethodValue(sel)
		if fn == nil {
			x.unsupported("no SSA for method " + cc.Method.Name() + " on " + iv.T.String())
		}
		args[0] = iv.V
		return x.callFn(fn, args, nil, cc)
	}
	switch f := fnv.(type) {
	case *ssa.Builtin:
		return x.builtin(f, args, cc)
	case FuncVal:
		if f.Fn == nil {
			x.gopanic("call of nil function")
		}
		return x.callFn(f.Fn, args, f.Bind, cc)
	}
	x.unsupported(fmt.Sprintf("call of %T", fnv))
	return nil
}

func (x *X) callFn(fn *ssa.Function, args []Value, bind []Value, cc *ssa.CallCommon) Value {
	name := fn.String()
	if fn.Origin() != nil {
		name = fn.Origin().String()
	}
	if x.bmc != nil && strings.HasPrefix(name, "sync/atomic.") {
		x.bmcAtVisible(name)
	}
	if h, ok := intrinsics[name]; ok && !(x.realSleep && strings.Contains(name, "/pkg/sleep.")) && !x.Cfg.NoStub[name] {
		x.St.StubsUsed[name]++
		return h(x, fn, args)
	}
	if h, ok := harnessIntrinsics[fn.Name()]; ok && fn.Pkg != nil && x.E.InModule(fn.Pkg.Pkg.Path()) {
		return h(x, fn, args)
	}
	if pk := fnPkgPath(fn); pk != "" {
		if h, ok := pkgStubs[pk]; ok {
			if r, handled := h(x, fn, args); handled {
				x.St.StubsUsed[name]++
				return r
			}
		}
	}
	if fn.Name() == "init" && fn.Pkg != nil && fn.Signature.Recv() == nil && fn.Parent() == nil {
		if !x.E.InModule(fn.Pkg.Pkg.Path()) {
			return nil // std package initialisers are not run
		}
		for _, skip := range []string{"/pkg/logging", "/stack/stackinit", "/config", "/protocol/link/rawfile", "/protocol/link/tuntap"} {
			if fn.Pkg.Pkg.Path() == ModulePath+skip {
				x.note("package initialiser not run (file / device I/O): " + skip)
				return nil
			}
		}
	}
	return x.call(fn, args, bind)
}

func fnPkgPath(fn *ssa.Function) string {
	if fn.Pkg != nil {
		return fn.Pkg.Pkg.Path()
	}
	if fn.Origin() != nil && fn.Origin().Pkg != nil {
		return fn.Origin().Pkg.Pkg.Path()
	}
	if o := fn.Object(); o != nil && o.Pkg() != nil {
		return o.Pkg().Path()
	}
	return ""
}

func (x *X) builtin(b *ssa.Builtin, args []Value, cc *ssa.CallCommon) Value {
	switch b.Name() {
	case "len":
		switch v := args[0].(type) {
		case Slice:
			return v.Len
		case String:
			return x.c64(uint64(len(v.B)))
		case MapRef:
			if v.M == nil {
				return x.c64(0)
			}
			return x.c64(uint64(len(v.M.E)))
		case ChanRef:
			if v.C == nil {
				return x.c64(0)
			}
			if v.C.Count != nil {
				return x.B.ZExt(v.C.Count, 64)
			}
			return x.c64(uint64(len(v.C.Buf)))
		case Pointer: // *array
			return x.c64(uint64(len(v.L.(*ArrayLoc).E)))
		case ArrayVal:
			return x.c64(uint64(len(v.E)))
		}
	case "cap":
		switch v := args[0].(type) {
		case Slice:
			return v.Cap
		case ChanRef:
			if v.C == nil {
				return x.c64(0)
			}
			return x.c64(uint64(v.C.Cap))
		case Pointer:
			return x.c64(uint64(len(v.L.(*ArrayLoc).E)))
		}
	case "copy":
		dst := args[0].(Slice)
		var src Slice
		switch s := args[1].(type) {
		case Slice:
			src = s
		case String:
			src = x.convert(s, types.Typ[types.String], types.NewSlice(types.Typ[types.Uint8])).(Slice)
		}
		n := x.B.Ite(x.B.ULT(dst.Len, src.Len), dst.Len, src.Len)
		x.copyElems(dst, src, n)
		return n
	case "append":
		return x.appendOp(args[0].(Slice), args[1], cc.Args[0].Type())
	case "delete":
		x.mapDelete(args[0].(MapRef), args[1])
		return nil
	case "print", "println":
		return nil
	case "close":
		c := args[0].(ChanRef)
		if c.C == nil {
			x.gopanic("close of nil channel")
		}
		if c.C.Closed {
			x.gopanic("close of closed channel")
		}
		c.C.Closed = true
		return nil
	case "recover":
		return Iface{}
	case "min", "max":
		t := cc.Args[0].Type()
		_, signed, ok := intInfo(t)
		if !ok {
			break
		}
		r := args[0].(*T)
		for _, a := range args[1:] {
			at := a.(*T)
			var lt *T
			if signed {
				lt = x.B.SLT(at, r)
			} else {
				lt = x.B.ULT(at, r)
			}
			if b.Name() == "max" {
				lt = x.B.Not(x.B.Or(lt, x.B.Eq(at, r)))
			}
			r = x.B.Ite(lt, at, r)
		}
		return r
	case "ssa:wrapnilchk":
		p, ok := args[0].(Pointer)
		if ok && p.IsNil() {
			x.gopanic("value method called via nil pointer")
		}
		return args[0]
	}
	x.unsupported("builtin " + b.Name())
	return nil
}

// copyElems copies n (symbolic) elements from src to dst (both slices).
func (x *X) copyElems(dst, src Slice, n *T) {
	if n.IsConst() && n.Val == 0 {
		return
	}
	if dst.Arr == nil || src.Arr == nil {
		return // n must be 0 under pc
	}
	B := x.B
	if termElem(dst.Arr.Elem) && !(n.IsConst() && dst.Off.IsConst() && src.Off.IsConst()) {
		// symbolic: every destination cell k becomes ite(k-doff <u n, src[soff + k - doff], old)
		// read all sources first (memmove semantics)
		newv := make([]*T, len(dst.Arr.E))
		for k := range dst.Arr.E {
			kk := x.c64(uint64(k))
			rel := B.Sub(kk, dst.Off)
			in := B.ULT(rel, n)
			if in.IsFalse() {
				continue
			}
			sv := x.selectElem(src.Arr, B.Add(src.Off, rel))
			newv[k] = B.Ite(in, sv, dst.Arr.E[k].(*ScalarLoc).V.(*T))
		}
		for k, v := range newv {
			if v != nil {
				dst.Arr.E[k].(*ScalarLoc).V = v
			}
		}
		return
	}
	cn := int(x.concretize(n, "copy length"))
	do := int(x.concretize(dst.Off, "copy dst offset"))
	so := int(x.concretize(src.Off, "copy src offset"))
	vals := make([]Value, cn)
	for i := 0; i < cn; i++ {
		vals[i] = x.loadLoc(src.Arr.E[so+i])
	}
	for i := 0; i < cn; i++ {
		x.storeLoc(dst.Arr.E[do+i], vals[i])
	}
}

var sizeClasses = []int{0, 8, 16, 24, 32, 48, 64, 80, 96, 112, 128, 144, 160, 176, 192, 208, 224, 240, 256, 288, 320, 352, 384, 416, 448, 480, 512, 576, 640, 704, 768, 896, 1024, 1152, 1280, 1408, 1536, 1792, 2048, 2304, 2688, 3072, 3200, 3456, 4096, 4864, 5120, 5376, 6144, 6528, 6784, 6912, 8192, 9472, 9728, 10240, 10880, 12288, 13568, 14336, 16384, 18432, 19072, 20480, 21760, 24576, 27264, 28672, 32768}

func roundupsize(n int) int {
	if n > 32768 {
		return (n + 8191) / 8192 * 8192
	}
	i := sort.SearchInts(sizeClasses, n)
	return sizeClasses[i]
}

var stdSizes = types.StdSizes{WordSize: 8, MaxAlign: 8}

// growCap models runtime.growslice's capacity choice (Go 1.23).
func growCap(oldCap, newLen int, elemSize int) int {
	newcap := oldCap
	doublecap := newcap + newcap
	if newLen > doublecap {
		newcap = newLen
	} else {
		const threshold = 256
		if oldCap < threshold {
			newcap = doublecap
		} else {
			for newcap < newLen {
				newcap += (newcap + 3*threshold) >> 2
			}
		}
	}
	if elemSize == 0 {
		return newcap
	}
	mem := roundupsize(newcap * elemSize)
	return mem / elemSize
}

func (x *X) appendOp(s Slice, tail Value, sliceT types.Type) Value {
	var t Slice
	switch tv := tail.(type) {
	case Slice:
		t = tv
	case String:
		t = x.convert(tv, types.Typ[types.String], types.NewSlice(types.Typ[types.Uint8])).(Slice)
	default:
		x.unsupported(fmt.Sprintf("append of %T", tail))
	}
	B := x.B
	if t.Len.IsConst() && t.Len.Val == 0 {
		return s
	}
	newLen := B.Add(s.Len, t.Len)
	if x.branch(B.ULE(newLen, s.Cap)) {
		// in place
		if t.Arr != nil {
			dst := Slice{Arr: s.Arr, Off: B.Add(s.Off, s.Len), Len: t.Len, Cap: t.Len}
			x.copyElems(dst, t, t.Len)
		}
		return Slice{Arr: s.Arr, Off: s.Off, Len: newLen, Cap: s.Cap}
	}
	elem := sliceT.Underlying().(*types.Slice).Elem()
	oc := int(x.concretize(s.Cap, "append old cap"))
	nl := int(x.concretize(newLen, "append new len"))
	es := int(stdSizes.Sizeof(elem))
	nc := growCap(oc, nl, es)
	arr := x.newArray(elem, nc)
	res := Slice{Arr: arr, Off: x.c64(0), Len: newLen, Cap: x.c64(uint64(nc))}
	if s.Arr != nil {
		x.copyElems(Slice{Arr: arr, Off: x.c64(0), Len: s.Len, Cap: s.Len}, s, s.Len)
	}
	x.copyElems(Slice{Arr: arr, Off: s.Len, Len: t.Len, Cap: t.Len}, t, t.Len)
	return res
}

// ghostAppend appends to a named ghost log.
func (x *X) ghostAppend(name string, v Value) {
	l, _ := x.ghost[name].([]Value)
	x.ghost[name] = append(l, v)
}
