package sx

// Interleaving mode (DESIGN 4.3): per-thread control-flow automata are extracted from the
// SSA of the real functions by resuming symbolic execution at every visible operation
// (sync/atomic calls, channel operations); the bounded model checker then unrolls K
// scheduler steps with the schedule as SMT variables.

import (
	"fmt"
	"go/types"
	"os"
	"sort"
	"strings"
	"time"

	"gosmt/smt"

	"golang.org/x/tools/go/ssa"
)

// aval: a register value with every term replaced by a placeholder and every pointer by the
// allocation-order id of its target.
type aval struct {
	kind string // "term", "ptr", "chan", "func", "tuple", "struct", "nilptr", "iface"
	w    int
	id   int
	fn   *ssa.Function
	sub  []aval
	typ  types.Type
}

func (a aval) shape() string {
	switch a.kind {
	case "term":
		return fmt.Sprintf("t%d", a.w)
	case "local":
		var ss []string
		for _, s := range a.sub {
			ss = append(ss, s.shape())
		}
		return fmt.Sprintf("local#%d{%s}", a.id, strings.Join(ss, ","))
	case "ptr", "chan":
		return fmt.Sprintf("%s#%d", a.kind, a.id)
	case "func":
		n := "nil"
		if a.fn != nil {
			n = a.fn.String()
		}
		return "fn:" + n
	}
	var ss []string
	for _, s := range a.sub {
		ss = append(ss, s.shape())
	}
	return a.kind + "(" + strings.Join(ss, ",") + ")"
}

type bmcFrame struct {
	fn    *ssa.Function
	blk   int
	idx   int
	vals  []ssa.Value
	avals []aval
}

type bmcLoc struct {
	id     int
	key    string
	frames []bmcFrame
	op     string
	nregs  int      // number of term placeholders
	regW   []int    // their widths
	regN   []string // their names (frame depth + SSA value: shared between locations)
	final  bool
	start  bool
	body   *ssa.Function
	owner  *ssa.Function // thread body this location belongs to
	err    string        // error location: panic / divergence between two visible operations
}

type bmcEdge struct {
	from, to int
	guard    *T
	regs     []*T       // values for the target's placeholders (parallel to target.regN)
	cells    map[int]*T // cell id -> new value
	chans    map[int]*T
}

// BMCSpec describes one interleaving obligation.
type BMCSpec struct {
	Setup      string   `json:"setup"`   // harness function creating the shared objects (returns one pointer)
	Threads    []string `json:"threads"` // thread body functions: func(shared, tid int, choice int)
	Steps      int      `json:"steps"`
	Safe       string   `json:"safe"` // harness predicate over the shared object: must hold in every state
	NoDeadlock bool     `json:"no_deadlock"`
	FinalOK    string   `json:"final"`    // optional predicate that must hold when all threads finished
	TVOrder    []int    `json:"tv_order"` // translator validation: run the threads sequentially in this order (default 0,1,2,...)
	Cubes      int      `json:"cubes"`    // cube-and-conquer: case split on the first Cubes scheduler choices (N^Cubes sub-queries per query)
}

type bmcCtx struct {
	cellName   map[int]string
	chanName   map[int]string
	structName map[int]string
	locs       []*bmcLoc
	byKey      map[string]*bmcLoc
	edges      []*bmcEdge
	cellW      map[int]int
	cellInit   map[int]uint64
	chanCap    map[int]int
	chanInit   map[int]uint64
	// per path
	active    bool
	firstDone bool
	baseDepth int
	cur       *bmcLoc
	curEdgeTo *bmcLoc
	ptrCells  map[int]string // pointer-valued cells: shape at start of the step
	nsetup    int
	// symbolic pointer cells: domain of target ids per cell (fixpoint over extraction rounds)
	ptrDom  map[int]map[int]bool
	domGrew bool
	rounds  int
	// thread-local objects reachable from live registers (per bmcFinish / per resume)
	localObjs  []Loc
	localTerms []*T
	localMade  map[int]Loc
	noResolve  bool
}

const ptrW = 16

// nameCells gives readable names (field paths from the shared root and globals) to locations.
func (x *X) nameCells(root Value) {
	b := x.bmc
	if b.cellName == nil {
		b.cellName = map[int]string{}
		b.chanName = map[int]string{}
		b.structName = map[int]string{}
	}
	var walk func(l Loc, path string)
	walk = func(l Loc, path string) {
		switch l := l.(type) {
		case *ScalarLoc:
			if l.ID != 0 && b.cellName[l.ID] == "" {
				b.cellName[l.ID] = path
			}
			if cr, ok := l.V.(ChanRef); ok && cr.C != nil && b.chanName[cr.C.ID] == "" {
				b.chanName[cr.C.ID] = path
			}
		case *StructLoc:
			if l.ID != 0 && b.cellName[l.ID] == "" {
				b.cellName[l.ID] = path
				b.structName[l.ID] = path
			}
			st, _ := l.T.Underlying().(*types.Struct)
			for i, f := range l.F {
				n := fmt.Sprint(i)
				if st != nil && i < st.NumFields() {
					n = st.Field(i).Name()
				}
				walk(f, path+"."+n)
			}
		case *ArrayLoc:
			for i, e := range l.E {
				walk(e, fmt.Sprintf("%s[%d]", path, i))
			}
		}
	}
	if p, ok := root.(Pointer); ok && p.L != nil {
		walk(p.L, "shared")
	}
	for g, l := range x.globals {
		walk(l, g.Name())
	}
}

// resolveSymPtr case-splits a symbolic pointer cell over its domain.
func (x *X) resolveSymPtr(sp SymPtr) Value {
	b := x.bmc
	if b == nil {
		x.unsupported("symbolic pointer outside interleaving mode")
	}
	var dom []int
	for id := range b.ptrDom[sp.Cell] {
		dom = append(dom, id)
	}
	sort.Ints(dom)
	i := x.choose(len(dom))
	id := dom[i]
	x.addPC(x.B.Eq(sp.T, x.B.Const(uint64(id), ptrW)))
	if id == 0 {
		return Pointer{}
	}
	return Pointer{L: x.locByID[id-1]}
}

func (b *bmcCtx) domAdd(cell, id int) {
	if b.ptrDom[cell] == nil {
		b.ptrDom[cell] = map[int]bool{}
	}
	if !b.ptrDom[cell][id] {
		b.ptrDom[cell][id] = true
		b.domGrew = true
	}
}

// ptrTarget returns the id stored for a concrete pointer value (0 for nil), or -1.
func (x *X) ptrTarget(p Pointer) int {
	if p.IsNil() {
		return 0
	}
	if p.L == nil {
		return -1
	}
	id := locID(p.L)
	if id == 0 || (x.bmc.nsetup > 0 && id > x.bmc.nsetup) {
		return -1
	}
	return id
}

func locID(l Loc) int {
	switch l := l.(type) {
	case *ScalarLoc:
		return l.ID
	case *StructLoc:
		return l.ID
	case *ArrayLoc:
		return l.ID
	}
	return 0
}

func (x *X) absValue(v Value) aval {
	switch v := v.(type) {
	case *T:
		if x.bmc != nil {
			x.bmc.localTerms = append(x.bmc.localTerms, v) // terms in traversal order (same order as concValue)
		}
		return aval{kind: "term", w: v.W}
	case Pointer:
		if v.IsNil() {
			return aval{kind: "nilptr"}
		}
		if v.L == nil {
			x.unsupported("interleaving mode: pointer with symbolic index live across a visible operation")
		}
		id := locID(v.L)
		if id == 0 {
			x.unsupported("interleaving mode: pointer to an unregistered location")
		}
		if x.bmc != nil && x.bmc.nsetup > 0 && id > x.bmc.nsetup {
			return x.absLocal(v.L)
		}
		return aval{kind: "ptr", id: id}
	case ChanRef:
		if v.C == nil {
			return aval{kind: "chan"}
		}
		return aval{kind: "chan", id: v.C.ID}
	case FuncVal:
		if len(v.Bind) > 0 {
			x.unsupported("interleaving mode: closure live across a visible operation")
		}
		return aval{kind: "func", fn: v.Fn}
	case Tuple:
		a := aval{kind: "tuple"}
		for _, e := range v {
			if e == nil {
				a.sub = append(a.sub, aval{kind: "nilptr"})
				continue
			}
			a.sub = append(a.sub, x.absValue(e))
		}
		return a
	case StructVal:
		a := aval{kind: "struct"}
		for _, e := range v.F {
			a.sub = append(a.sub, x.absValue(e))
		}
		return a
	case Iface:
		if v.T == nil {
			return aval{kind: "iface"}
		}
		return aval{kind: "iface", typ: v.T, sub: []aval{x.absValue(v.V)}}
	}
	x.unsupported(fmt.Sprintf("interleaving mode: value of kind %T live across a visible operation", v))
	return aval{}
}

// absLocal abstracts a thread-local object (allocated by the thread, reachable from a live
// register): its contents become part of the location's register state.
func (x *X) absLocal(l Loc) aval {
	b := x.bmc
	for k, o := range b.localObjs {
		if o == l {
			return aval{kind: "local", id: k}
		}
	}
	k := len(b.localObjs)
	b.localObjs = append(b.localObjs, l)
	a := aval{kind: "local", id: k}
	switch l := l.(type) {
	case *ScalarLoc:
		a.typ = l.T
		if _, sym := l.V.(SymPtr); sym {
			x.unsupported("interleaving mode: symbolic pointer in thread-local memory")
		}
		a.sub = []aval{x.absValue(l.V)}
	case *StructLoc:
		a.typ = l.T
		for _, f := range l.F {
			sc, ok := f.(*ScalarLoc)
			if !ok {
				x.unsupported("interleaving mode: nested thread-local aggregate live across a visible operation")
			}
			a.sub = append(a.sub, x.absValue(sc.V))
		}
	default:
		x.unsupported("interleaving mode: thread-local array live across a visible operation")
	}
	return a
}

func collectTerms(v Value, out *[]*T) {
	switch v := v.(type) {
	case *T:
		*out = append(*out, v)
	case Tuple:
		for _, e := range v {
			if e != nil {
				collectTerms(e, out)
			}
		}
	case StructVal:
		for _, e := range v.F {
			collectTerms(e, out)
		}
	case Iface:
		if v.T != nil {
			collectTerms(v.V, out)
		}
	}
}

func (x *X) concValue(a aval, next func(w int) *T) Value {
	switch a.kind {
	case "term":
		return next(a.w)
	case "nilptr":
		return Pointer{}
	case "local":
		b := x.bmc
		if l, ok := b.localMade[a.id]; ok {
			return Pointer{L: l}
		}
		if a.typ == nil {
			x.unsupported("interleaving mode: back reference to an unknown thread-local object")
		}
		if st, ok := a.typ.Underlying().(*types.Struct); ok && len(a.sub) == st.NumFields() {
			sl := &StructLoc{T: a.typ}
			x.regLoc(sl, &sl.ID)
			b.localMade[a.id] = sl
			for i, sa := range a.sub {
				sc := &ScalarLoc{T: st.Field(i).Type()}
				x.regLoc(sc, &sc.ID)
				sc.V = x.concValue(sa, next)
				sl.F = append(sl.F, sc)
			}
			return Pointer{L: sl}
		}
		sc := &ScalarLoc{T: a.typ}
		x.regLoc(sc, &sc.ID)
		b.localMade[a.id] = sc
		sc.V = x.concValue(a.sub[0], next)
		return Pointer{L: sc}
	case "ptr":
		if a.id-1 >= len(x.locByID) {
			x.unsupported("interleaving mode: location id out of range on resume")
		}
		return Pointer{L: x.locByID[a.id-1]}
	case "chan":
		if a.id == 0 {
			return ChanRef{}
		}
		return ChanRef{C: x.chanByID[a.id-1]}
	case "func":
		return FuncVal{Fn: a.fn}
	case "tuple":
		t := make(Tuple, len(a.sub))
		for i, s := range a.sub {
			t[i] = x.concValue(s, next)
		}
		return t
	case "struct":
		sv := StructVal{F: make([]Value, len(a.sub))}
		for i, s := range a.sub {
			sv.F[i] = x.concValue(s, next)
		}
		return sv
	case "iface":
		if a.typ == nil {
			return Iface{}
		}
		return Iface{T: a.typ, V: x.concValue(a.sub[0], next)}
	}
	x.unsupported("interleaving mode: cannot rebuild value of kind " + a.kind)
	return nil
}

func valKey(v ssa.Value) string { return fmt.Sprintf("%s@%d", v.Name(), v.Pos()) }

func regName(depth int, v ssa.Value, leaf int) string {
	fn := ""
	if v.Parent() != nil {
		fn = v.Parent().Name()
	}
	return fmt.Sprintf("R%d.%s.%s.%d", depth, fn, v.Name(), leaf)
}

func reachableBlocks(b *ssa.BasicBlock) map[int]bool {
	seen := map[int]bool{}
	var walk func(*ssa.BasicBlock)
	walk = func(c *ssa.BasicBlock) {
		for _, s := range c.Succs {
			if !seen[s.Index] {
				seen[s.Index] = true
				walk(s)
			}
		}
	}
	walk(b)
	return seen
}

// liveness (backward dataflow over the SSA function, cached)
type liveInfo struct {
	out []map[ssa.Value]bool // live-out per block
}

var liveCache = map[*ssa.Function]*liveInfo{}

func operandsOf(ins ssa.Instruction) []ssa.Value {
	var ops []*ssa.Value
	ops = ins.Operands(ops)
	var out []ssa.Value
	for _, o := range ops {
		if o == nil || *o == nil {
			continue
		}
		switch (*o).(type) {
		case *ssa.Const, *ssa.Global, *ssa.Function, *ssa.Builtin:
			continue
		}
		out = append(out, *o)
	}
	return out
}

func liveness(fn *ssa.Function) *liveInfo {
	if li, ok := liveCache[fn]; ok {
		return li
	}
	n := len(fn.Blocks)
	in := make([]map[ssa.Value]bool, n)
	out := make([]map[ssa.Value]bool, n)
	for i := range in {
		in[i], out[i] = map[ssa.Value]bool{}, map[ssa.Value]bool{}
	}
	changed := true
	for changed {
		changed = false
		for bi := n - 1; bi >= 0; bi-- {
			b := fn.Blocks[bi]
			o := map[ssa.Value]bool{}
			for _, s := range b.Succs {
				for v := range in[s.Index] {
					o[v] = true
				}
				// phi operands flowing along this edge
				for _, ins := range s.Instrs {
					phi, ok := ins.(*ssa.Phi)
					if !ok {
						break
					}
					for pi, p := range s.Preds {
						if p == b {
							switch phi.Edges[pi].(type) {
							case *ssa.Const, *ssa.Global, *ssa.Function, *ssa.Builtin:
							default:
								o[phi.Edges[pi]] = true
							}
						}
					}
				}
			}
			li := map[ssa.Value]bool{}
			for v := range o {
				li[v] = true
			}
			for k := len(b.Instrs) - 1; k >= 0; k-- {
				ins := b.Instrs[k]
				if v, ok := ins.(ssa.Value); ok {
					delete(li, v)
				}
				if _, isPhi := ins.(*ssa.Phi); isPhi {
					continue // phi operands are uses on the incoming edges
				}
				for _, u := range operandsOf(ins) {
					li[u] = true
				}
			}
			if len(li) != len(in[bi]) || len(o) != len(out[bi]) {
				changed = true
			}
			in[bi], out[bi] = li, o
		}
	}
	r := &liveInfo{out: out}
	liveCache[fn] = r
	return r
}

// liveAfter: is register v needed at or after the current position of fr (the instruction
// at fr.idx itself included, since resuming re-executes it)?
func liveAfter(fr *frame, v ssa.Value) bool {
	li := liveness(fr.fn)
	live := map[ssa.Value]bool{}
	for u := range li.out[fr.blk.Index] {
		live[u] = true
	}
	for k := len(fr.blk.Instrs) - 1; k >= fr.idx; k-- {
		ins := fr.blk.Instrs[k]
		if d, ok := ins.(ssa.Value); ok {
			delete(live, d)
		}
		if _, isPhi := ins.(*ssa.Phi); isPhi {
			continue
		}
		for _, u := range operandsOf(ins) {
			live[u] = true
		}
	}
	return live[v]
}

// bmcAtVisible is called when a visible operation is about to execute.
func (x *X) bmcAtVisible(op string) {
	b := x.bmc
	if b == nil || !b.active {
		return
	}
	if !b.firstDone {
		b.firstDone = true
		return
	}
	x.bmcFinish(op, false)
	panic(pathEnd{"visible", op})
}

// bmcFinish records the edge from the current source location to the location described
// by the current frame stack (or END).
func (x *X) bmcFinish(op string, final bool) {
	b := x.bmc
	var frames []bmcFrame
	var terms []*T
	var names []string
	b.localObjs = nil
	if !final {
		for d, fr := range x.stack[b.baseDepth:] {
			bf := bmcFrame{fn: fr.fn, blk: fr.blk.Index, idx: fr.idx}
			var vals []ssa.Value
			for v := range fr.env {
				vals = append(vals, v)
			}
			sort.Slice(vals, func(i, j int) bool { return valKey(vals[i]) < valKey(vals[j]) })
			for _, v := range vals {
				if !liveAfter(fr, v) {
					continue
				}
				bf.vals = append(bf.vals, v)
				b.localTerms = nil
				bf.avals = append(bf.avals, x.absValue(fr.env[v]))
				n0 := len(terms)
				terms = append(terms, b.localTerms...) // the value's terms and those of thread-local objects first reached through it
				for i := n0; i < len(terms); i++ {
					names = append(names, regName(d, v, i-n0))
				}
			}
			frames = append(frames, bf)
		}
	}
	var kb strings.Builder
	if final {
		kb.WriteString("END")
	}
	for _, f := range frames {
		fmt.Fprintf(&kb, "%s:%d:%d[", f.fn.String(), f.blk, f.idx)
		for i, a := range f.avals {
			fmt.Fprintf(&kb, "%s=%s;", f.vals[i].Name(), a.shape())
		}
		kb.WriteString("]")
	}
	key := kb.String()
	to := b.byKey[key]
	if to == nil {
		to = &bmcLoc{id: len(b.locs), key: key, frames: frames, op: op, final: final, owner: b.cur.owner}
		for i, t := range terms {
			to.regW = append(to.regW, t.W)
			to.regN = append(to.regN, names[i])
		}
		to.nregs = len(terms)
		b.locs = append(b.locs, to)
		b.byKey[key] = to
	}
	e := &bmcEdge{from: b.cur.id, to: to.id, guard: x.B.And(x.pc...), regs: terms, cells: map[int]*T{}, chans: map[int]*T{}}
	for i, l := range x.locByID {
		id := i + 1
		sc, ok := l.(*ScalarLoc)
		if !ok {
			continue
		}
		switch v := sc.V.(type) {
		case *T:
			if w, shared := b.cellW[id]; shared {
				if v.Op != smt.OpVar || v.Name != fmt.Sprintf("c%d", id) {
					if v.W != w {
						x.unsupported("interleaving mode: cell width changed")
					}
					e.cells[id] = v
				}
			}
		case SymPtr:
			if v.Cell != id {
				x.unsupported("interleaving mode: unresolved symbolic pointer copied between cells")
			}
		case Pointer:
			if _, isPtr := b.ptrDom[id]; isPtr {
				tid := x.ptrTarget(v)
				if tid < 0 {
					x.unsupported(fmt.Sprintf("interleaving mode: shared pointer cell %d gets a pointer to thread-local or interior memory", id))
				}
				e.cells[id] = x.B.Const(uint64(tid), ptrW)
				b.domAdd(id, tid)
				continue
			}
			if sh, ok := b.ptrCells[id]; ok && sh != x.absShape(sc.V) {
				x.unsupported(fmt.Sprintf("interleaving mode: pointer-valued shared cell %d written by a thread", id))
			}
		default:
			if sh, ok := b.ptrCells[id]; ok && sh != x.absShape(sc.V) {
				x.unsupported(fmt.Sprintf("interleaving mode: pointer-valued shared cell %d written by a thread (needs symbolic pointers)", id))
			}
		}
	}
	for i, c := range x.chanByID {
		id := i + 1
		if c.Count != nil {
			if c.Count.Op != smt.OpVar || c.Count.Name != fmt.Sprintf("ch%d", id) {
				e.chans[id] = c.Count
			}
		}
	}
	b.edges = append(b.edges, e)
}

// bmcErrEdge records an edge from the current source location to an error location.
func (x *X) bmcErrEdge(kind, msg string) {
	b := x.bmc
	if kind == "unwind" {
		msg = "no visible operation within the step budget (divergence between two atomic operations)"
	}
	key := "ERR:" + kind + ": " + msg
	to := b.byKey[key]
	if to == nil {
		to = &bmcLoc{id: len(b.locs), key: key, op: "error", err: kind + ": " + msg, owner: b.cur.owner}
		b.locs = append(b.locs, to)
		b.byKey[key] = to
	}
	b.edges = append(b.edges, &bmcEdge{from: b.cur.id, to: to.id, guard: x.B.And(x.pc...), cells: map[int]*T{}, chans: map[int]*T{}})
}

func (x *X) absShape(v Value) string {
	defer func() { recover() }()
	return x.absValue(v).shape()
}

// BMCExtract builds the location/edge tables for the given thread bodies.
func (x *X) BMCExtract(setup *ssa.Function, bodies []*ssa.Function) {
	b := &bmcCtx{byKey: map[string]*bmcLoc{}, cellW: map[int]int{}, cellInit: map[int]uint64{}, chanCap: map[int]int{}, chanInit: map[int]uint64{}}
	x.bmc = b
	x.realSleep = true
	x.St = Stats{PathKinds: map[string]int{}, Funcs: map[string]bool{}, Reached: map[string]bool{}, Notes: map[string]int{}, KnownHit: map[string]string{}, StubsUsed: map[string]int{}}
	if x.Cfg.MaxConcVals == 0 {
		x.Cfg.MaxConcVals = 70
	}
	b.ptrDom = map[int]map[int]bool{}
	for {
		b.rounds++
		b.domGrew = false
		b.locs, b.edges, b.byKey = nil, nil, map[string]*bmcLoc{}
		x.bmcExtractRound(setup, bodies)
		if len(x.St.Inconclusive) > 0 || !b.domGrew {
			return
		}
		for _, k := range []string{"unsupported", "unwind"} {
			if x.St.PathKinds[k] > 0 {
				return
			}
		}
		if b.rounds > 12 {
			x.St.Inconclusive = append(x.St.Inconclusive, "interleaving mode: pointer domains did not stabilise in 12 rounds")
			return
		}
	}
}

func (x *X) bmcExtractRound(setup *ssa.Function, bodies []*ssa.Function) {
	b := x.bmc
	// START locations, one per distinct body
	done := map[*ssa.Function]bool{}
	for _, body := range bodies {
		if done[body] {
			continue
		}
		done[body] = true
		l := &bmcLoc{id: len(b.locs), key: "START:" + body.String(), start: true, body: body, owner: body}
		// registers of START: tid and choice (params 1 and 2)
		l.nregs, l.regW = 2, []int{64, 64}
		l.regN = []string{regName(0, body.Params[1], 0), regName(0, body.Params[2], 0)}
		b.locs = append(b.locs, l)
		b.byKey[l.key] = l
	}
	for i := 0; i < len(b.locs); i++ {
		l := b.locs[i]
		if l.final || l.err != "" {
			continue
		}
		x.trace = nil
		for {
			x.St.Paths++
			kind := x.runPathEntry(func() { x.bmcExploreFrom(setup, l) })
			x.St.PathKinds[kind]++
			if kind == "unsupported" || kind == "unwind" {
				return
			}
			if !x.backtrack() {
				break
			}
			if x.St.Paths > 200000 {
				x.St.Inconclusive = append(x.St.Inconclusive, "interleaving mode: path budget exhausted during extraction")
				return
			}
		}
	}
}

func (x *X) bmcExploreFrom(setup *ssa.Function, l *bmcLoc) {
	b := x.bmc
	b.active = false
	x.runInits(setup.Pkg)
	shared := x.call(setup, nil, nil)
	if b.cellName == nil {
		x.nameCells(shared)
	}
	// make shared scalar cells symbolic
	b.ptrCells = map[int]string{}
	b.nsetup = len(x.locByID)
	for i, loc := range x.locByID {
		id := i + 1
		sc, ok := loc.(*ScalarLoc)
		if !ok {
			continue
		}
		switch v := sc.V.(type) {
		case *T:
			if !v.IsConst() {
				x.unsupported("interleaving mode: setup must produce a concrete initial state")
			}
			b.cellW[id] = v.W
			b.cellInit[id] = v.Val
			sc.V = x.B.Var(fmt.Sprintf("c%d", id), v.W)
		case Pointer:
			tid := x.ptrTarget(v)
			if tid < 0 {
				b.ptrCells[id] = x.absShape(sc.V)
				continue
			}
			b.cellW[id] = ptrW
			b.cellInit[id] = uint64(tid)
			if b.ptrDom[id] == nil || !b.ptrDom[id][tid] {
				grew := b.domGrew
				b.domAdd(id, tid)
				b.domGrew = grew // the initial value is known before any edge is recorded
			}
			sc.V = SymPtr{T: x.B.Var(fmt.Sprintf("c%d", id), ptrW), Cell: id}
		default:
			b.ptrCells[id] = x.absShape(sc.V)
		}
	}
	for i, c := range x.chanByID {
		id := i + 1
		if st, ok := c.ElemT.Underlying().(*types.Struct); !ok || st.NumFields() != 0 {
			x.unsupported("interleaving mode: only token channels (chan struct{}) are modelled")
		}
		b.chanCap[id] = c.Cap
		b.chanInit[id] = uint64(len(c.Buf))
		c.Buf = nil
		c.Count = x.B.Var(fmt.Sprintf("ch%d", id), 8)
	}
	b.cur = l
	b.baseDepth = len(x.stack)
	b.active = true
	x.Cfg.MaxSteps = x.steps + 50000 // one step between two visible operations is short; longer = divergence
	k := 0
	next := func(w int) *T {
		t := x.B.Var(l.regN[k], w)
		k++
		return t
	}
	if l.start {
		b.firstDone = true
		x.call(l.body, []Value{shared, next(64), next(64)}, nil)
		x.bmcFinish("end", true)
		return
	}
	b.firstDone = false
	// rebuild the frames
	b.localMade = map[int]Loc{}
	frs := make([]*frame, len(l.frames))
	for i, bf := range l.frames {
		fr := &frame{fn: bf.fn, env: map[ssa.Value]Value{}, visits: map[int]int{}, blk: bf.fn.Blocks[bf.blk], idx: bf.idx}
		for j, v := range bf.vals {
			fr.env[v] = x.concValue(bf.avals[j], next)
		}
		frs[i] = fr
	}
	x.stack = append(x.stack, frs...)
	var res Value
	for i := len(frs) - 1; i >= 0; i-- {
		bf := l.frames[i]
		fr := frs[i]
		blk := bf.fn.Blocks[bf.blk]
		start := bf.idx
		if i < len(frs)-1 {
			// the call instruction that invoked the inner frame has returned
			if v, ok := blk.Instrs[bf.idx].(ssa.Value); ok {
				fr.env[v] = res
			}
			start = bf.idx + 1
		}
		x.stack = x.stack[:b.baseDepth+i+1]
		if start >= len(blk.Instrs) {
			x.unsupported("interleaving mode: resume past the end of a block")
		}
		res = x.runFrame(fr, blk, start, nil)
	}
	x.stack = x.stack[:b.baseDepth]
	x.bmcFinish("end", true)
}

// ---------------------------------------------------------------------------
// Bounded model checking over the extracted automata

var bmcSem = make(chan struct{}, 16)

// BMCTV is the sequential-schedule prediction used for translator validation: the threads
// run one after the other in Order with the given choice values; Cells/Chans is the final
// shared state the extracted automata predict.
type BMCTV struct {
	Order   []int             `json:"order"`
	Choices []uint64          `json:"choices"`
	Cells   map[string]string `json:"cells"` // Go expression -> predicted value ("nil", "&expr" or decimal)
	Width   map[string]int    `json:"width"` // bit width of scalar cells (values are compared modulo 2^width)
	Chans   map[string]uint64 `json:"chans"` // Go expression of the channel -> token count
	Targets []string          `json:"targets"`
	Result  string            `json:"result"`
}

type BMCResult struct {
	TV               *BMCTV `json:"tv,omitempty"`
	Cubes            int
	Locations, Edges int
	Steps            int
	Queries          []BMCQuery
	Schedule         []int // counterexample schedule, if any
	Trace            []string
}

type BMCQuery struct {
	Name    string
	Result  string
	Seconds float64
}

// BMCUnroll builds the K-step transition relation for the given threads (index into
// bodies per thread) and returns helpers to pose queries.
type bmcModel struct {
	x       *X
	nthr    int
	K       int
	pc      [][]*T            // [t][k]
	regs    [][]map[string]*T // [t][k][regname]
	cells   []map[int]*T      // [k][id]
	chans   []map[int]*T
	sched   []*T
	trans   []*T // constraints
	enabled [][]*T
	endID   int
	written map[int]bool
}

func (x *X) bmcUnroll(bodies []*ssa.Function, K int) *bmcModel {
	b := x.bmc
	B := x.B
	m := &bmcModel{x: x, nthr: len(bodies), K: K}
	for _, l := range b.locs {
		if l.final {
			m.endID = l.id
		}
	}
	startOf := func(body *ssa.Function) *bmcLoc { return b.byKey["START:"+body.String()] }
	// register names per location: r<loc>_<i>
	// cells that no edge writes keep their initial value: constants in every state
	written := map[int]bool{}
	for _, e := range b.edges {
		for id := range e.cells {
			written[id] = true
		}
	}
	m.written = written
	mkState := func(k int) {
		cs, hs := map[int]*T{}, map[int]*T{}
		for id, w := range b.cellW {
			if !written[id] {
				cs[id] = B.Const(b.cellInit[id], w)
				continue
			}
			cs[id] = B.Var(fmt.Sprintf("C%d@%d", id, k), w)
		}
		for id := range b.chanCap {
			hs[id] = B.Var(fmt.Sprintf("CH%d@%d", id, k), 8)
		}
		m.cells = append(m.cells, cs)
		m.chans = append(m.chans, hs)
	}
	m.pc = make([][]*T, m.nthr)
	m.regs = make([][]map[string]*T, m.nthr)
	m.enabled = make([][]*T, m.nthr)
	for k := 0; k <= K; k++ {
		mkState(k)
		for t := 0; t < m.nthr; t++ {
			m.pc[t] = append(m.pc[t], B.Var(fmt.Sprintf("pc%d@%d", t, k), 16))
			rs := map[string]*T{}
			for _, l := range b.locs {
				if l.owner != bodies[t] && !l.final {
					continue
				}
				for i, w := range l.regW {
					n := l.regN[i]
					rs[n] = B.Var(fmt.Sprintf("%s.t%d@%d", n, t, k), w)
				}
			}
			m.regs[t] = append(m.regs[t], rs)
		}
		if k < K {
			m.sched = append(m.sched, B.Var(fmt.Sprintf("sched@%d", k), 8))
		}
	}
	// initial state
	for id, v := range b.cellInit {
		if written[id] {
			m.trans = append(m.trans, B.Eq(m.cells[0][id], B.Const(v, b.cellW[id])))
		}
	}
	for id, v := range b.chanInit {
		m.trans = append(m.trans, B.Eq(m.chans[0][id], B.Const(v, 8)))
	}
	for t, body := range bodies {
		st := startOf(body)
		m.trans = append(m.trans, B.Eq(m.pc[t][0], B.Const(uint64(st.id), 16)))
		m.trans = append(m.trans, B.Eq(m.regs[t][0][st.regN[0]], B.Const(uint64(t), 64)))
	}
	// substitution of an edge term into step k for thread t
	inst := func(term *T, t, k int) *T {
		sub := map[string]*T{}
		for n, v := range m.regs[t][k] {
			sub[n] = v
		}
		for id, v := range m.cells[k] {
			sub[fmt.Sprintf("c%d", id)] = v
		}
		for id, v := range m.chans[k] {
			sub[fmt.Sprintf("ch%d", id)] = v
		}
		return B.Subst(term, sub, map[int]*T{})
	}
	for k := 0; k < K; k++ {
		m.trans = append(m.trans, B.ULT(m.sched[k], B.Const(uint64(m.nthr), 8)))
		type upd struct {
			cond *T
			val  *T
		}
		cellUpd := map[int][]upd{}
		chanUpd := map[int][]upd{}
		var anyEnabled []*T
		for t := 0; t < m.nthr; t++ {
			isT := B.Eq(m.sched[k], B.Const(uint64(t), 8))
			var en []*T
			pcNext := m.pc[t][k]
			regNext := map[string]*T{}
			for n, v := range m.regs[t][k] {
				regNext[n] = v
			}
			for _, e := range b.edges {
				if b.locs[e.from].owner != bodies[t] {
					continue
				}
				cond := B.And(B.Eq(m.pc[t][k], B.Const(uint64(e.from), 16)), inst(e.guard, t, k))
				en = append(en, cond)
				take := B.And(isT, cond)
				pcNext = B.Ite(take, B.Const(uint64(e.to), 16), pcNext)
				for i, rv := range e.regs {
					n := b.locs[e.to].regN[i]
					if rv.Op == smt.OpVar && rv.Name == n {
						continue // unchanged
					}
					regNext[n] = B.Ite(take, inst(rv, t, k), regNext[n])
				}
				for id, v := range e.cells {
					cellUpd[id] = append(cellUpd[id], upd{take, inst(v, t, k)})
				}
				for id, v := range e.chans {
					chanUpd[id] = append(chanUpd[id], upd{take, inst(v, t, k)})
				}
			}
			enT := B.Or(en...)
			m.enabled[t] = append(m.enabled[t], enT)
			anyEnabled = append(anyEnabled, enT)
			m.trans = append(m.trans, B.Eq(m.pc[t][k+1], pcNext))
			for n, v := range regNext {
				m.trans = append(m.trans, B.Eq(m.regs[t][k+1][n], v))
			}
		}
		any := B.Or(anyEnabled...)
		// the scheduler only picks enabled threads; if nothing is enabled the step stutters
		for t := 0; t < m.nthr; t++ {
			isT := B.Eq(m.sched[k], B.Const(uint64(t), 8))
			m.trans = append(m.trans, B.Implies(B.And(isT, any), m.enabled[t][k]))
		}
		for id := range b.cellW {
			if !written[id] {
				continue
			}
			nv := m.cells[k][id]
			for _, u := range cellUpd[id] {
				nv = B.Ite(u.cond, u.val, nv)
			}
			m.trans = append(m.trans, B.Eq(m.cells[k+1][id], nv))
		}
		for id := range b.chanCap {
			nv := m.chans[k][id]
			for _, u := range chanUpd[id] {
				nv = B.Ite(u.cond, u.val, nv)
			}
			m.trans = append(m.trans, B.Eq(m.chans[k+1][id], nv))
		}
	}
	// enabledness at the last state (for the unwinding assertion)
	for t := 0; t < m.nthr; t++ {
		var en []*T
		for _, e := range b.edges {
			if b.locs[e.from].owner != bodies[t] {
				continue
			}
			en = append(en, B.And(B.Eq(m.pc[t][K], B.Const(uint64(e.from), 16)), inst(e.guard, t, K)))
		}
		m.enabled[t] = append(m.enabled[t], B.Or(en...))
	}
	return m
}

// instCells substitutes the cell placeholders of a predicate with the state at step k.
func (m *bmcModel) instCells(p *T, k int) *T {
	sub := map[string]*T{}
	for id, v := range m.cells[k] {
		sub[fmt.Sprintf("c%d", id)] = v
	}
	for id, v := range m.chans[k] {
		sub[fmt.Sprintf("ch%d", id)] = v
	}
	return m.x.B.Subst(p, sub, map[int]*T{})
}

// bmcPredicate evaluates a branch-free harness predicate over the shared object with the
// cells as placeholders.
func (x *X) bmcPredicate(setup, pred *ssa.Function) *T {
	var res *T
	x.trace = nil
	kind := x.runPathEntry(func() {
		b := x.bmc
		b.active = false
		x.runInits(setup.Pkg)
		shared := x.call(setup, nil, nil)
		for i, loc := range x.locByID {
			id := i + 1
			if sc, ok := loc.(*ScalarLoc); ok {
				if v, ok := sc.V.(*T); ok {
					if _, sh := b.cellW[id]; sh {
						sc.V = x.B.Var(fmt.Sprintf("c%d", id), v.W)
					}
				}
				if _, ok := sc.V.(Pointer); ok {
					if _, isPtr := b.ptrDom[id]; isPtr {
						sc.V = SymPtr{T: x.B.Var(fmt.Sprintf("c%d", id), ptrW), Cell: id}
					}
				}
			}
		}
		for i, c := range x.chanByID {
			c.Buf = nil
			c.Count = x.B.Var(fmt.Sprintf("ch%d", i+1), 8)
		}
		b.noResolve = true
		defer func() { b.noResolve = false }()
		res = x.call(pred, []Value{shared}, nil).(*T)
	})
	if kind != "return" || len(x.trace) != 0 {
		x.St.Inconclusive = append(x.St.Inconclusive, "interleaving mode: predicate "+pred.Name()+" must be branch-free (use vand/vor)")
		return nil
	}
	return res
}

// BMCCheck runs the interleaving obligation: extraction, unrolling, queries.
func (x *X) BMCCheck(spec BMCSpec, pkg *ssa.Package) *BMCResult {
	res := &BMCResult{Steps: spec.Steps}
	setup := pkg.Func(spec.Setup)
	if setup == nil {
		x.St.Inconclusive = append(x.St.Inconclusive, "setup function not found: "+spec.Setup)
		return res
	}
	var bodies []*ssa.Function
	for _, n := range spec.Threads {
		f := pkg.Func(n)
		if f == nil {
			x.St.Inconclusive = append(x.St.Inconclusive, "thread function not found: "+n)
			return res
		}
		bodies = append(bodies, f)
	}
	x.BMCExtract(setup, bodies)
	b := x.bmc
	res.Locations, res.Edges = len(b.locs), len(b.edges)
	if len(x.St.Inconclusive) > 0 {
		return res
	}
	for _, l := range b.locs {
		res.Trace = append(res.Trace, fmt.Sprintf("L%d %s regs=%d %s", l.id, l.op, l.nregs, shortKey(l.key)))
	}
	var safe, final *T
	if spec.Safe != "" {
		f := pkg.Func(spec.Safe)
		if f == nil {
			x.St.Inconclusive = append(x.St.Inconclusive, "predicate not found: "+spec.Safe)
			return res
		}
		safe = x.bmcPredicate(setup, f)
	}
	if spec.FinalOK != "" {
		f := pkg.Func(spec.FinalOK)
		if f == nil {
			x.St.Inconclusive = append(x.St.Inconclusive, "predicate not found: "+spec.FinalOK)
			return res
		}
		final = x.bmcPredicate(setup, f)
	}
	if len(x.St.Inconclusive) > 0 {
		return res
	}
	if x.Cfg.Trace {
		fmt.Fprintf(os.Stderr, "  .. interleaving: %d locations, %d edges, %d shared cells, %d channels\n", len(b.locs), len(b.edges), len(b.cellW), len(b.chanCap))
		for _, l := range b.locs {
			fmt.Fprintf(os.Stderr, "     L%d [%s] regs=%v %s\n", l.id, l.op, l.regN, shortKey(l.key))
		}
		for _, e := range b.edges {
			fmt.Fprintf(os.Stderr, "     L%d -> L%d cells=%d chans=%d\n", e.from, e.to, len(e.cells), len(e.chans))
		}
	}
	m := x.bmcUnroll(bodies, spec.Steps)
	if x.Cfg.Trace {
		fmt.Fprintf(os.Stderr, "  .. unrolled %d steps: %d constraints\n", spec.Steps, len(m.trans))
	}
	B := x.B
	K := spec.Steps
	allDone := func(k int) *T {
		var cs []*T
		for t := 0; t < m.nthr; t++ {
			cs = append(cs, B.Eq(m.pc[t][k], B.Const(uint64(m.endID), 16)))
		}
		return B.And(cs...)
	}
	anyEn := func(k int) *T {
		var cs []*T
		for t := 0; t < m.nthr; t++ {
			cs = append(cs, m.enabled[t][k])
		}
		return B.Or(cs...)
	}
	want := append([]*T{}, m.sched...)
	for t := 0; t < m.nthr; t++ {
		want = append(want, m.pc[t]...)
	}
	var cellIDs []int
	for id := range b.cellW {
		cellIDs = append(cellIDs, id)
	}
	sort.Ints(cellIDs)
	for k := 0; k <= K; k++ {
		for _, id := range cellIDs {
			if m.written[id] {
				want = append(want, m.cells[k][id])
			}
		}
		for id := range b.chanCap {
			want = append(want, m.chans[k][id])
		}
	}
	cellLabel := func(id int) string {
		if n := b.cellName[id]; n != "" {
			return n
		}
		return fmt.Sprintf("cell%d", id)
	}
	mkTrace := func(model map[string]uint64) []string {
		var tr []string
		val := func(id int, k int) string {
			v := model[fmt.Sprintf("C%d@%d", id, k)]
			if !m.written[id] {
				v = b.cellInit[id]
			}
			if _, isPtr := b.ptrDom[id]; isPtr {
				if v == 0 {
					return "nil"
				}
				return "&" + cellLabel(int(v))
			}
			return fmt.Sprint(int64(v))
		}
		var init []string
		for _, id := range cellIDs {
			init = append(init, cellLabel(id)+"="+val(id, 0))
		}
		tr = append(tr, "initial: "+strings.Join(init, " "))
		for k := 0; k < K; k++ {
			t := int(model[fmt.Sprintf("sched@%d", k)])
			if t >= m.nthr {
				continue
			}
			from := int(model[fmt.Sprintf("pc%d@%d", t, k)])
			to := int(model[fmt.Sprintf("pc%d@%d", t, k+1)])
			if from == to {
				same := true
				for _, id := range cellIDs {
					if model[fmt.Sprintf("C%d@%d", id, k)] != model[fmt.Sprintf("C%d@%d", id, k+1)] {
						same = false
					}
				}
				if same {
					continue // stutter (nothing enabled)
				}
			}
			var ch []string
			for _, id := range cellIDs {
				if model[fmt.Sprintf("C%d@%d", id, k)] != model[fmt.Sprintf("C%d@%d", id, k+1)] {
					ch = append(ch, cellLabel(id)+": "+val(id, k)+" -> "+val(id, k+1))
				}
			}
			for id := range b.chanCap {
				if model[fmt.Sprintf("CH%d@%d", id, k)] != model[fmt.Sprintf("CH%d@%d", id, k+1)] {
					ch = append(ch, fmt.Sprintf("chan%d tokens: %d -> %d", id, model[fmt.Sprintf("CH%d@%d", id, k)], model[fmt.Sprintf("CH%d@%d", id, k+1)]))
				}
			}
			desc := func(id int) string {
				if id < len(b.locs) {
					l := b.locs[id]
					if l.final {
						return "END"
					}
					if l.err != "" {
						return "ERROR(" + l.err + ")"
					}
					if l.start {
						return "START"
					}
					top := l.frames[len(l.frames)-1]
					return fmt.Sprintf("L%d before %s in %s", l.id, l.op, top.fn.Name())
				}
				return fmt.Sprint(id)
			}
			tr = append(tr, fmt.Sprintf("step %2d: thread %d (%s): %s => %s   %s", k, t, spec.Threads[t], desc(from), desc(to), strings.Join(ch, "; ")))
		}
		return tr
	}
	// Queries are independent: each is printed as a one-shot script (the default z3 tactic on a
	// one-shot BV problem is ~25x faster here than the incremental core) and they run in parallel.
	type bq struct {
		name, msg string
		script    string
		nwant     int
		r         smt.Result
		vals      []uint64
		secs      float64
		witness   bool
	}
	var qs []*bq
	ask := func(name string, bad *T, violationMsg string) {
		as := append(append([]*T{}, m.trans...), bad)
		qs = append(qs, &bq{name: name, msg: violationMsg, script: smt.OneShotScript("z3-new", B, as, want), nwant: len(want)})
	}
	// reachability witness: some complete execution exists
	ask("witness: a complete execution exists", allDone(K), "")
	qs[0].witness = true
	for _, l := range b.locs {
		if l.err == "" {
			continue
		}
		var bad []*T
		for t := 0; t < m.nthr; t++ {
			for k := 0; k <= K; k++ {
				bad = append(bad, B.Eq(m.pc[t][k], B.Const(uint64(l.id), 16)))
			}
		}
		ask("unreachable: "+l.err, B.Or(bad...), "a thread reaches "+l.err)
	}
	if safe != nil {
		var bad []*T
		for k := 0; k <= K; k++ {
			bad = append(bad, B.Not(m.instCells(safe, k)))
		}
		ask("safety: "+spec.Safe, B.Or(bad...), "safety predicate "+spec.Safe+" violated in some interleaving")
	}
	if spec.NoDeadlock {
		var bad []*T
		for k := 0; k <= K; k++ {
			bad = append(bad, B.And(B.Not(anyEn(k)), B.Not(allDone(k))))
		}
		ask("no lost wake-up (deadlock freedom)", B.Or(bad...), "a thread waits forever: reachable state with an unfinished thread and nothing enabled (lost wake-up)")
	}
	if final != nil {
		ask("final: "+spec.FinalOK, B.And(allDone(K), B.Not(m.instCells(final, K))), "final-state predicate "+spec.FinalOK+" violated")
	}
	// unwinding assertion: every execution is complete (or deadlocked, reported above) within K steps
	ask("unwinding assertion", anyEn(K), "")
	if d := os.Getenv("VERIF_BMCDUMP"); d != "" {
		for i, q := range qs {
			os.WriteFile(fmt.Sprintf("%s/q%d.smt2", d, i), []byte(q.script), 0644)
		}
	}
	tmo := x.Cfg.BMCTimeoutMs
	if tmo == 0 {
		tmo = 600000
	}
	// cube-and-conquer: every query is split on the first spec.Cubes scheduler choices; the
	// sub-queries are independent solver runs; unsat iff all unsat, sat as soon as one is sat
	var cubes []string
	cubes = []string{""}
	for c := 0; c < spec.Cubes && c < K; c++ {
		var next []string
		for _, pre := range cubes {
			for t := 0; t < m.nthr; t++ {
				next = append(next, pre+fmt.Sprintf("(assert (= |sched@%d| #x%02x))\n", c, t))
			}
		}
		cubes = next
	}
	type sub struct {
		q    *bq
		r    smt.Result
		vals []uint64
		secs float64
	}
	var subs []*sub
	for _, q := range qs {
		for range cubes {
			subs = append(subs, &sub{q: q})
		}
	}
	done := make(chan *sub, len(subs))
	for i, sb := range subs {
		cube := cubes[i%len(cubes)]
		go func(sb *sub, cube string) {
			bmcSem <- struct{}{}
			t0 := now()
			script := sb.q.script
			if cube != "" {
				j := strings.LastIndex(script, "(check-sat)")
				script = script[:j] + cube + script[j:]
			}
			sb.r, sb.vals, _ = smt.RunScript("z3-new", script, sb.q.nwant, tmo)
			sb.secs = since(t0)
			<-bmcSem
			done <- sb
		}(sb, cube)
	}
	for _, q := range qs {
		q.r = smt.Unsat
	}
	for range subs {
		sb := <-done
		q := sb.q
		q.secs += sb.secs
		switch sb.r {
		case smt.Sat:
			if q.r != smt.Sat {
				q.r, q.vals = smt.Sat, sb.vals
			}
		case smt.Unknown:
			if q.r == smt.Unsat {
				q.r = smt.Unknown
			}
		}
		if x.Cfg.Trace && len(cubes) == 1 {
			fmt.Fprintf(os.Stderr, "  .. query %q: %s %.1fs\n", q.name, sb.r.String(), sb.secs)
		}
	}
	if x.Cfg.Trace && len(cubes) > 1 {
		for _, q := range qs {
			fmt.Fprintf(os.Stderr, "  .. query %q (%d cubes): %s, %.1fs solver time in total\n", q.name, len(cubes), q.r.String(), q.secs)
		}
	}
	res.Cubes = len(cubes)
	for _, q := range qs {
		res.Queries = append(res.Queries, BMCQuery{Name: q.name, Result: q.r.String(), Seconds: q.secs})
		x.S.Queries += len(cubes)
		x.S.Time += time.Duration(q.secs * float64(time.Second))
		switch q.r {
		case smt.Sat:
			x.S.NSat++
			switch {
			case q.witness:
				x.St.Reached["complete-execution"] = true
			case q.msg != "":
				model := map[string]uint64{}
				for i, w := range want {
					model[w.Name] = q.vals[i]
				}
				var sched []int
				for k := 0; k < K; k++ {
					sched = append(sched, int(model[fmt.Sprintf("sched@%d", k)]))
				}
				if res.Schedule == nil {
					res.Schedule = sched
				}
				small := map[string]uint64{}
				for n, v := range model {
					if strings.HasPrefix(n, "sched@") {
						small[n] = v
					}
				}
				x.St.Violations = append(x.St.Violations, Violation{Msg: q.msg, Kind: "assert", Model: small, Trace: mkTrace(model), Where: "interleaving of " + strings.Join(specThreads(spec), ", ")})
			default:
				x.St.Inconclusive = append(x.St.Inconclusive, q.name+": some execution is not complete within "+fmt.Sprint(K)+" scheduler steps (unwinding assertion)")
			}
		case smt.Unsat:
			x.S.NUnsat++
		case smt.Unknown:
			x.S.NUnk++
			x.St.Inconclusive = append(x.St.Inconclusive, q.name+": solver unknown / time-out")
		}
	}
	if len(x.St.Violations) == 0 && len(x.St.Inconclusive) == 0 {
		// translator validation input: the state the automata predict for a sequential schedule
		order := spec.TVOrder
		if len(order) != m.nthr {
			order = nil
			for t := 0; t < m.nthr; t++ {
				order = append(order, t)
			}
		}
		as := append([]*T{}, m.trans...)
		as = append(as, allDone(K))
		for k := 0; k < K; k++ {
			for j := 1; j < len(order); j++ {
				for i := 0; i < j; i++ {
					as = append(as, B.Implies(B.Eq(m.sched[k], B.Const(uint64(order[j]), 8)), B.Eq(m.pc[order[i]][k], B.Const(uint64(m.endID), 16))))
				}
			}
		}
		var tvWant []*T
		var choiceVars []*T
		for t, body := range bodies {
			st := b.byKey["START:"+body.String()]
			cv := m.regs[t][0][st.regN[1]]
			choiceVars = append(choiceVars, cv)
			tvWant = append(tvWant, cv)
		}
		var ids []int
		for _, id := range cellIDs {
			if m.written[id] && !strings.Contains(cellLabel(id), "$") {
				ids = append(ids, id)
				tvWant = append(tvWant, m.cells[K][id])
			}
		}
		var chIDs []int
		for id := range b.chanCap {
			if b.chanName[id] != "" {
				chIDs = append(chIDs, id)
			}
		}
		sort.Ints(chIDs)
		for _, id := range chIDs {
			tvWant = append(tvWant, m.chans[K][id])
		}
		r, vals, _ := smt.RunScript("z3-new", smt.OneShotScript("z3-new", B, as, tvWant), len(tvWant), tmo)
		tv := &BMCTV{Order: order, Cells: map[string]string{}, Width: map[string]int{}, Chans: map[string]uint64{}, Result: r.String()}
		if r == smt.Sat {
			for i := range choiceVars {
				tv.Choices = append(tv.Choices, vals[i])
			}
			off := len(choiceVars)
			for i, id := range ids {
				v := vals[off+i]
				if _, isPtr := b.ptrDom[id]; isPtr {
					if v == 0 {
						tv.Cells[cellLabel(id)] = "nil"
					} else {
						tv.Cells[cellLabel(id)] = "&" + cellLabel(int(v))
					}
				} else {
					tv.Cells[cellLabel(id)] = fmt.Sprint(v)
					tv.Width[cellLabel(id)] = b.cellW[id]
				}
			}
			off += len(ids)
			for i, id := range chIDs {
				tv.Chans[b.chanName[id]] = vals[off+i]
			}
			for _, n := range b.structName {
				tv.Targets = append(tv.Targets, n)
			}
			sort.Strings(tv.Targets)
		}
		res.TV = tv
	}
	return res
}

func specThreads(s BMCSpec) []string { return s.Threads }

func shortKey(k string) string {
	k = strings.ReplaceAll(k, ModulePath+"/", "")
	if len(k) > 160 {
		k = k[:160]
	}
	return k
}

func now() time.Time            { return time.Now() }
func since(t time.Time) float64 { return time.Since(t).Seconds() }
