package sx

import (
	"fmt"
	"os"
	"path/filepath"
	"strings"

	"golang.org/x/tools/go/packages"
	"golang.org/x/tools/go/ssa"
	"golang.org/x/tools/go/ssa/ssautil"
)

const ModulePath = "github.com/brewlin/net-protocol"

// BuildTags (comma separated) are passed to the package loader; set from the spec ("tags").
var BuildTags string

// Engine holds the SSA program of /repo plus harness overlays.
type Engine struct {
	Prog     *ssa.Program
	Pkgs     map[string]*ssa.Package
	RepoDir  string
	Overlay  map[string][]byte
	LoadErrs []string
}

func (e *Engine) InModule(path string) bool {
	return path == ModulePath || strings.HasPrefix(path, ModulePath+"/")
}

// Load type-checks and builds SSA for the given import paths of /repo with the harness
// files from harnessDir/<import path relative to module>/zz_verif_*.go overlaid.
func Load(repoDir, harnessDir string, relPkgs []string) (*Engine, error) {
	e := &Engine{RepoDir: repoDir, Overlay: map[string][]byte{}, Pkgs: map[string]*ssa.Package{}}
	// collect overlays: every directory under harnessDir that has zz_verif_*.go files
	filepath.Walk(harnessDir, func(p string, info os.FileInfo, err error) error {
		if err != nil || info.IsDir() {
			return nil
		}
		base := filepath.Base(p)
		if !strings.HasPrefix(base, "zz_verif_") || !strings.HasSuffix(base, ".go") || strings.HasSuffix(base, "_test.go") {
			return nil
		}
		rel, _ := filepath.Rel(harnessDir, filepath.Dir(p))
		data, err := os.ReadFile(p)
		if err != nil {
			return nil
		}
		e.Overlay[filepath.Join(repoDir, rel, base)] = data
		return nil
	})
	// the shim (vn*/vassert declarations) is generated per harnessed package
	shimDirs := map[string]string{}
	for p := range e.Overlay {
		d := filepath.Dir(p)
		if _, ok := shimDirs[d]; ok {
			continue
		}
		// package name from the overlay file
		src := string(e.Overlay[p])
		name := ""
		for _, l := range strings.Split(src, "\n") {
			l = strings.TrimSpace(l)
			if strings.HasPrefix(l, "package ") {
				name = strings.Fields(l)[1]
				break
			}
		}
		shimDirs[d] = name
	}
	for d, name := range shimDirs {
		e.Overlay[filepath.Join(d, "zz_verif_shim.go")] = []byte(ShimSource(name, false))
	}
	cfg := &packages.Config{
		Mode:    packages.LoadAllSyntax,
		Dir:     repoDir,
		Overlay: e.Overlay,
		Env:     append(os.Environ(), "GOFLAGS=-mod=mod", "GOPROXY=off", "GOSUMDB=off", "GOTOOLCHAIN=local", "CGO_ENABLED=0"),
		Tests:   false,
	}
	if BuildTags != "" {
		cfg.BuildFlags = []string{"-tags=" + BuildTags}
	}
	var pats []string
	for _, r := range relPkgs {
		pats = append(pats, "./"+strings.TrimPrefix(r, "./"))
	}
	pkgs, err := packages.Load(cfg, pats...)
	if err != nil {
		return nil, err
	}
	packages.Visit(pkgs, nil, func(p *packages.Package) {
		for _, er := range p.Errors {
			if e.InModule(p.PkgPath) {
				e.LoadErrs = append(e.LoadErrs, p.PkgPath+": "+er.Error())
			}
		}
	})
	if len(e.LoadErrs) > 0 {
		return e, fmt.Errorf("type errors: %s", strings.Join(e.LoadErrs, "; "))
	}
	prog, _ := ssautil.AllPackages(pkgs, ssa.InstantiateGenerics)
	prog.Build()
	e.Prog = prog
	for _, p := range prog.AllPackages() {
		e.Pkgs[p.Pkg.Path()] = p
	}
	return e, nil
}

// Func finds a package-level function by import path (relative to the module) and name.
func (e *Engine) Func(relPkg, name string) *ssa.Function {
	p := e.Pkgs[ModulePath+"/"+strings.TrimPrefix(relPkg, "./")]
	if p == nil {
		return nil
	}
	return p.Func(name)
}

// ShimSource is the declaration of the harness intrinsics. With native=true the bodies
// read the solver's model (replay); otherwise they are placeholders that the executor
// intercepts by name.
func ShimSource(pkg string, native bool) string {
	if !native {
		return "package " + pkg + `

func vnU8(name string) uint8            { return 0 }
func vnU16(name string) uint16          { return 0 }
func vnU32(name string) uint32          { return 0 }
func vnU64(name string) uint64          { return 0 }
func vnInt(name string) int             { return 0 }
func vnBool(name string) bool           { return false }
func vnBytes(name string, n int) []byte { return make([]byte, n) }
func vnString(name string, n int) string { return "" }
func vnChoice(name string, n int) int   { return 0 }
func vassume(c bool)                    {}
func vassert(c bool, msg string)        {}
func vassertKnown(c bool, msg string, id string, sig bool) {}
func vreach(label string)               {}
func vufU8(name string, arg uint64) uint8 { return 0 }
func vufU32(name string, arg uint64) uint32 { return 0 }
func vufBool(name string, arg uint64) bool { return false }
func vghostInc(name string)             {}
func vghostGet(name string) int         { return 0 }
func vnow() int64                       { return 0 }
func vparam(name string, def int) int   { return def }
func vand(a, b bool) bool               { return a && b }
func vor(a, b bool) bool                { return a || b }
func vimplies(a, b bool) bool           { return !a || b }
func vcutActive() bool                  { return false }
func vrandPush(v uint32)                {}
func vclockWithin(d int64)              {}
func vclockFreeze()                     {}
func vsymbolic() bool                   { return true }
func vreadvPush(n int)                  {}
func vfetchPush(id int)                 {}
func vfetchPushTimer(id int)            {}
func vexpectTimerAtBlock()              {}
func vfdWrites() int                    { return 0 }
func vfdWrite(i int) []byte             { return nil }
`
	}
	return "package " + pkg + `

import (
	"encoding/json"
	"fmt"
	"os"
)

var vmodel map[string]uint64
var vopen map[string]bool
var vparams map[string]int
var vcount = map[string]int{}
var vghosts = map[string]int{}
var VReplayFailure string

func vload() {
	if vmodel != nil {
		return
	}
	vmodel = map[string]uint64{}
	vopen = map[string]bool{}
	data, err := os.ReadFile(os.Getenv("VERIF_MODEL"))
	if err != nil {
		panic("VERIF_MODEL: " + err.Error())
	}
	var m struct {
		Model map[string]uint64
		Open  []string
		Params map[string]int
	}
	if err := json.Unmarshal(data, &m); err != nil {
		panic(err)
	}
	vmodel = m.Model
	vparams = m.Params
	for _, o := range m.Open {
		vopen[o] = true
	}
}
func vname(name string) string {
	vload()
	k := vcount[name]
	vcount[name]++
	if k == 0 {
		return name
	}
	return fmt.Sprintf("%s#%d", name, k)
}
func vnU8(name string) uint8   { return uint8(vmodel[vname(name)]) }
func vnU16(name string) uint16 { return uint16(vmodel[vname(name)]) }
func vnU32(name string) uint32 { return uint32(vmodel[vname(name)]) }
func vnU64(name string) uint64 { return vmodel[vname(name)] }
func vnInt(name string) int    { return int(vmodel[vname(name)]) }
func vnBool(name string) bool  { return vmodel[vname(name)] != 0 }
func vnBytes(name string, n int) []byte {
	nm := vname(name)
	b := make([]byte, n)
	for i := range b {
		b[i] = byte(vmodel[fmt.Sprintf("%s[%d]", nm, i)])
	}
	return b
}
func vnString(name string, n int) string { return string(vnBytes(name, n)) }
func vnChoice(name string, n int) int    { return int(vmodel[vname(name)]) }
func vassume(c bool) {
	if !c {
		panic("VREPLAY-ASSUME-FAILED")
	}
}
func vassert(c bool, msg string) {
	if !c {
		panic("VASSERT-FAILED: " + msg)
	}
}
func vassertKnown(c bool, msg string, id string, sig bool) {
	vload()
	if !c && !(vopen[id] && sig) {
		panic("VASSERT-FAILED: " + msg)
	}
}
func vreach(label string) {}
func vufU8(name string, arg uint64) uint8 {
	vload()
	return uint8(vmodel[fmt.Sprintf("%s(%d)", name, arg)])
}
func vufU32(name string, arg uint64) uint32 {
	vload()
	return uint32(vmodel[fmt.Sprintf("%s(%d)", name, arg)])
}
func vufBool(name string, arg uint64) bool {
	vload()
	return vmodel[fmt.Sprintf("%s(%d)", name, arg)] != 0
}
func vghostInc(name string)     { vghosts[name]++ }
func vghostGet(name string) int { return vghosts[name] }
func vnow() int64               { return int64(vmodel[vname("now")]) }
func vand(a, b bool) bool     { return a && b }
func vor(a, b bool) bool      { return a || b }
func vimplies(a, b bool) bool { return !a || b }
func vcutActive() bool        { return false }
func vrandPush(v uint32)      {}
func vclockWithin(d int64)    {}
func vclockFreeze()           {}
func vsymbolic() bool         { return false }
func vreadvPush(n int)        {}
func vfetchPush(id int)       {}
func vfetchPushTimer(id int)  {}
func vexpectTimerAtBlock()    {}
func vfdWrites() int          { return 0 }
func vfdWrite(i int) []byte   { return nil }
func vparam(name string, def int) int {
	vload()
	if v, ok := vparams[name]; ok {
		return v
	}
	return def
}
`
}
