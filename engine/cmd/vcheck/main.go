// vcheck: driver for the solver-based checks (see /verif/DESIGN.md).
//
//	vcheck run C14 [--tier quick|thorough] [--only obligation] [--jobs N] [-v]
//	vcheck replay <dir>
package main

import (
	"encoding/json"
	"fmt"
	"os"
	"os/exec"
	"path/filepath"
	"runtime/debug"
	"sort"
	"strconv"
	"strings"
	"sync"
	"sync/atomic"
	"time"

	"gosmt/smt"
	"gosmt/sx"
)

const verifDir = "/verif"

var repoDir = "/repo"
var maxPathsOverride int
var tvRun, tvAgree int
var tvNotes []string

type ObSpec struct {
	Name           string         `json:"name"`
	Pkg            string         `json:"pkg"`
	Func           string         `json:"func"`
	Tier           string         `json:"tier"` // "", "quick", "thorough" ("" = both)
	Unwind         int            `json:"unwind"`
	MaxPaths       int            `json:"max_paths"`
	AllowPanic     bool           `json:"allow_panic"`
	Reach          []string       `json:"reach"`
	Solver         string         `json:"solver"`
	TimeoutMs      int            `json:"timeout_ms"`
	NoStub         []string       `json:"no_stub"`              // functions whose executor stub is switched off (their real body is executed)
	MaxSteps       int            `json:"max_steps"`            // instruction budget per path (default 4000000)
	Diverge        bool           `json:"diverge_is_violation"` // exceeding the unwinding / step bound is reported as non-termination
	Cuts           []sx.CutSpec   `json:"cuts"`
	Bound          string         `json:"bound"`
	Claim          string         `json:"claim"`
	NoReplay       bool           `json:"no_replay"`
	AssertSolver   string         `json:"assert_solver"`
	BMC            *sx.BMCSpec    `json:"bmc"`
	NoLemmas       bool           `json:"no_lemmas"`
	Params         map[string]int `json:"params"` // tier-dependent ints readable by harness via vparam (quick)
	ParamsThorough map[string]int `json:"params_thorough"`
}

type Spec struct {
	Property    string   `json:"property"`
	Level       string   `json:"level"`
	Packages    []string `json:"packages"`
	Obligations []ObSpec `json:"obligations"`
	Assumptions []string `json:"assumptions"`
	Out         []string `json:"outside_claim"`
	Units       []string `json:"units"`
	Tags        string   `json:"tags"`
}

type KnownFinding struct {
	ID       string `json:"id"`
	Property string `json:"property"`
	Status   string `json:"status"` // "open" | "fixed"
	What     string `json:"what"`
	Commit   string `json:"commit,omitempty"`
	Line     string `json:"line,omitempty"`
}

type obResult struct {
	Spec   ObSpec
	St     sx.Stats
	Solver struct {
		Queries, Sat, Unsat, Unknown int
		Seconds                      float64
		Errors                       []string
	}
	Wall    float64
	Status  string // "discharged" | "violated" | "inconclusive"
	Replays []replayResult
	Params  map[string]int
	BMC     *sx.BMCResult
}

type replayResult struct {
	Dir        string
	Reproduced bool
	Output     string
	V          sx.Violation
}

func main() {
	if len(os.Args) < 2 {
		usage()
	}
	if r := os.Getenv("VERIF_REPO"); r != "" {
		repoDir = r
	}
	switch os.Args[1] {
	case "run":
		os.Exit(cmdRun(os.Args[2:]))
	case "replay":
		os.Exit(cmdReplay(os.Args[2:]))
	default:
		usage()
	}
}

func usage() {
	fmt.Fprintln(os.Stderr, "usage: vcheck run <Cxx> [--tier quick|thorough] [--only name] [--jobs N] [-v] | vcheck replay <dir>")
	os.Exit(2)
}

func loadKnown() []KnownFinding {
	var k struct {
		Findings []KnownFinding `json:"findings"`
	}
	data, err := os.ReadFile(filepath.Join(verifDir, "known_findings.json"))
	if err != nil {
		return nil
	}
	json.Unmarshal(data, &k)
	return k.Findings
}

func cmdRun(args []string) int {
	if len(args) < 1 {
		usage()
	}
	prop := args[0]
	tier := os.Getenv("VERIF_TIER")
	if tier == "" {
		tier = "quick"
	}
	only := ""
	jobs := 16
	verbose := false
	for i := 1; i < len(args); i++ {
		switch args[i] {
		case "--tier":
			i++
			tier = args[i]
		case "--only":
			i++
			only = args[i]
		case "--jobs":
			i++
			jobs, _ = strconv.Atoi(args[i])
		case "-v":
			verbose = true
		case "--max-paths":
			i++
			maxPathsOverride, _ = strconv.Atoi(args[i])
		}
	}
	seed := 0
	if s := os.Getenv("VERIF_SEED"); s != "" {
		seed, _ = strconv.Atoi(s)
	}
	t0 := time.Now()
	var spec Spec
	data, err := os.ReadFile(filepath.Join(verifDir, "spec", prop+".json"))
	if err != nil {
		fmt.Println("INCONCLUSIVE: no spec for", prop, err)
		return 2
	}
	if err := json.Unmarshal(data, &spec); err != nil {
		fmt.Println("INCONCLUSIVE: bad spec:", err)
		return 2
	}
	known := loadKnown()
	open := map[string]bool{}
	knownByID := map[string]KnownFinding{}
	for _, k := range known {
		knownByID[k.ID] = k
		if k.Status == "open" && k.Property == prop {
			open[k.ID] = true
		}
	}
	sx.BuildTags = spec.Tags
	eng, err := sx.Load(repoDir, filepath.Join(verifDir, "harness"), spec.Packages)
	if err != nil {
		fmt.Printf("INCONCLUSIVE property=%s harness/load error (harness out of date or tree does not type-check): %v\n", prop, err)
		writeEvidence(spec, tier, seed, nil, time.Since(t0).Seconds(), []string{"load error: " + err.Error()}, 0)
		return 2
	}
	var obs []ObSpec
	for _, o := range spec.Obligations {
		if o.Tier != "" && o.Tier != tier {
			continue
		}
		if only != "" && o.Name != only {
			continue
		}
		obs = append(obs, o)
	}
	// shuffle order by seed (results are independent of order; this only varies scheduling)
	if seed != 0 {
		r := uint64(seed)*6364136223846793005 + 1442695040888963407
		for i := len(obs) - 1; i > 0; i-- {
			r = r*6364136223846793005 + 1442695040888963407
			j := int((r >> 33) % uint64(i+1))
			obs[i], obs[j] = obs[j], obs[i]
		}
	}
	results := make([]*obResult, len(obs))
	var wg sync.WaitGroup
	sem := make(chan struct{}, jobs)
	for i := range obs {
		wg.Add(1)
		go func(i int) {
			defer wg.Done()
			sem <- struct{}{}
			defer func() { <-sem }()
			results[i] = runOb(eng, obs[i], tier, open, verbose)
		}(i)
	}
	wg.Wait()

	// replay violations natively (sequentially: go test is heavy)
	exit := 0
	var inconc []string
	nviol := 0
	knownPrinted := map[string]bool{}
	for _, r := range results {
		for id, msg := range r.St.KnownHit {
			if !knownPrinted[id] {
				knownPrinted[id] = true
				fmt.Printf("KNOWN-FINDING: property=%s %s: %s [obligation %s: %s]\n", prop, id, knownByID[id].What, r.Spec.Name, msg)
			}
		}
		if len(r.St.Violations) > 0 {
			// group by message: replay the first of each distinct message
			seen := map[string]bool{}
			for _, v := range r.St.Violations {
				if seen[v.Msg] {
					continue
				}
				seen[v.Msg] = true
				outRoot := filepath.Join(verifDir, "out")
				if d := os.Getenv("VERIF_OUT_DIR"); d != "" {
					outRoot = d // seeded runs of one property in parallel must not share replay directories
				}
				dir := filepath.Join(outRoot, prop, r.Spec.Name+"-"+sanitize(v.Msg))
				rr := replayResult{Dir: dir, V: v}
				if r.Spec.NoReplay {
					writeReplayDir(eng, dir, r.Spec, v, open, r.Params)
					rr.Reproduced = true
					rr.Output = "(replay disabled for this obligation: reported from the solver model)"
				} else {
					writeReplayDir(eng, dir, r.Spec, v, open, r.Params)
					ok, out := runReplay(dir)
					rr.Reproduced, rr.Output = ok, out
				}
				r.Replays = append(r.Replays, rr)
				if rr.Reproduced {
					nviol++
					fmt.Printf("VIOLATION property=%s replay=%s\n", prop, dir)
					fmt.Printf("  obligation=%s assertion=%q where=%s\n  model=%s\n", r.Spec.Name, v.Msg, v.Where, compactModel(v.Model))
					exit = 1
				} else {
					inconc = append(inconc, fmt.Sprintf("%s: counterexample for %q did not reproduce natively (encoder/stub mismatch): %s", r.Spec.Name, v.Msg, lastLines(rr.Output, 6)))
				}
			}
			r.Status = "violated"
		}
		for _, m := range r.St.Inconclusive {
			inconc = append(inconc, r.Spec.Name+": "+m)
		}
		for _, l := range r.Spec.Reach {
			if !r.St.Reached[l] {
				inconc = append(inconc, r.Spec.Name+": vacuity witness not reachable: "+l)
			}
		}
		for _, e := range r.Solver.Errors {
			inconc = append(inconc, r.Spec.Name+": solver: "+e)
		}
		if r.Status == "" {
			r.Status = "discharged"
		}
	}
	for _, r := range results {
		bad := false
		for _, m := range inconc {
			if strings.HasPrefix(m, r.Spec.Name+": ") {
				bad = true
			}
		}
		if bad && r.Status == "discharged" {
			r.Status = "inconclusive"
		}
	}
	if nviol == 0 && os.Getenv("VERIF_NO_TV") == "" {
		tvRun, tvAgree, tvNotes = translatorValidation(spec, results, open)
		for _, n := range tvNotes {
			if strings.Contains(n, "sequential-schedule state differs") {
				// the extracted automata disagree with the real code on a schedule both can run: no verdict
				inconc = append(inconc, "translator validation: "+n)
			}
		}
	}
	wall := time.Since(t0).Seconds()
	writeEvidence(spec, tier, seed, results, wall, inconc, nviol)
	// summary
	nd := 0
	for _, r := range results {
		if r.Status == "discharged" {
			nd++
		}
		if verbose || r.Status != "discharged" {
			fmt.Printf("  [%s] %-28s paths=%d queries=%d (sat %d unsat %d unk %d) solver=%.1fs wall=%.1fs steps=%d kinds=%v\n", r.Status, r.Spec.Name,
				r.St.Paths, r.Solver.Queries, r.Solver.Sat, r.Solver.Unsat, r.Solver.Unknown, r.Solver.Seconds, r.Wall, r.St.Steps, r.St.PathKinds)
		}
	}
	fmt.Printf("%s tier=%s: %d/%d obligations discharged, %d violation(s), %d inconclusive note(s), %.1fs\n", prop, tier, nd, len(results), nviol, len(inconc), wall)
	if exit == 1 {
		return 1
	}
	if len(inconc) > 0 {
		for _, m := range inconc {
			fmt.Println("INCONCLUSIVE:", m)
		}
		return 2
	}
	return 0
}

func compactModel(m map[string]uint64) string {
	keys := make([]string, 0, len(m))
	for k := range m {
		keys = append(keys, k)
	}
	sort.Strings(keys)
	var sb strings.Builder
	for i, k := range keys {
		if i > 0 {
			sb.WriteString(" ")
		}
		if i > 40 {
			sb.WriteString("…")
			break
		}
		fmt.Fprintf(&sb, "%s=%d", k, m[k])
	}
	return sb.String()
}

func lastLines(s string, n int) string {
	ls := strings.Split(strings.TrimSpace(s), "\n")
	if len(ls) > n {
		ls = ls[len(ls)-n:]
	}
	return strings.Join(ls, " | ")
}

func sanitize(s string) string {
	var sb strings.Builder
	for _, c := range s {
		switch {
		case c >= 'a' && c <= 'z', c >= 'A' && c <= 'Z', c >= '0' && c <= '9':
			sb.WriteRune(c)
		default:
			sb.WriteRune('_')
		}
	}
	r := sb.String()
	if len(r) > 48 {
		r = r[:48]
	}
	return r
}

func runOb(eng *sx.Engine, o ObSpec, tier string, open map[string]bool, verbose bool) *obResult {
	res := &obResult{Spec: o}
	t0 := time.Now()
	fn := eng.Func(o.Pkg, o.Func)
	if fn == nil && o.BMC == nil {
		res.St.Inconclusive = []string{"harness function not found: " + o.Pkg + "." + o.Func}
		return res
	}
	kind := o.Solver
	if kind == "" {
		kind = "z3-new"
	}
	to := o.TimeoutMs
	if to == 0 {
		to = 60000
		if tier == "thorough" {
			to = 300000
		}
	}
	s, err := smt.NewSolver(kind, to)
	if err != nil {
		res.St.Inconclusive = []string{"cannot start solver: " + err.Error()}
		return res
	}
	defer s.Close()
	if lf := os.Getenv("VERIF_SMTLOG"); lf != "" {
		f, _ := os.Create(lf + "." + o.Name + ".smt2")
		s.Log = f
		defer f.Close()
	}
	x := &sx.X{E: eng, B: smt.NewB(), S: s}
	x.Cfg = sx.Config{Unwind: o.Unwind, MaxPaths: o.MaxPaths, MaxSteps: 4000000, AllowPanic: o.AllowPanic, OpenKnown: open, Cuts: o.Cuts, Trace: verbose}
	if o.MaxSteps > 0 {
		x.Cfg.MaxSteps = o.MaxSteps
	}
	x.Cfg.DivergeViolation = o.Diverge
	x.Cfg.NoStub = map[string]bool{}
	for _, n := range o.NoStub {
		x.Cfg.NoStub[n] = true
	}
	if x.Cfg.Unwind == 0 {
		x.Cfg.Unwind = 600
	}
	if maxPathsOverride > 0 {
		x.Cfg.MaxPaths = maxPathsOverride
	}
	if x.Cfg.MaxPaths == 0 {
		x.Cfg.MaxPaths = 200000
	}
	x.Cfg.NoLemmas = o.NoLemmas
	x.Cfg.AssertSolver = o.AssertSolver
	x.Cfg.AssertTimeoutMs = to
	x.Cfg.BMCTimeoutMs = to
	budget := 25 * time.Minute
	if tier == "thorough" {
		budget = 3 * time.Hour
	}
	x.Cfg.Deadline = time.Now().Add(budget)
	x.Params = o.Params
	if tier == "thorough" && o.ParamsThorough != nil {
		x.Params = o.ParamsThorough
	}
	func() {
		defer func() {
			if r := recover(); r != nil {
				x.St.Inconclusive = append(x.St.Inconclusive, fmt.Sprintf("executor crashed: %v", r))
				if verbose {
					fmt.Fprintf(os.Stderr, "executor crash in %s: %v\n%s\n", o.Name, r, debug.Stack())
				}
			}
		}()
		if o.BMC != nil {
			pkg := eng.Pkgs[sx.ModulePath+"/"+o.Pkg]
			if pkg == nil {
				x.St.Inconclusive = append(x.St.Inconclusive, "package not loaded: "+o.Pkg)
				return
			}
			res.BMC = x.BMCCheck(*o.BMC, pkg)
			return
		}
		x.Run(fn)
	}()
	res.St = x.St
	if len(x.St.Violations) > 0 {
		atomic.StoreInt32(&sx.StopAll, 1)
	}
	res.Params = x.Params
	res.Solver.Queries, res.Solver.Sat, res.Solver.Unsat, res.Solver.Unknown = s.Queries, s.NSat, s.NUnsat, s.NUnk
	res.Solver.Queries += x.AuxQueries
	res.Solver.Sat += x.AuxSat
	res.Solver.Unsat += x.AuxUnsat
	res.Solver.Unknown += x.AuxUnk
	res.Solver.Seconds = s.Time.Seconds() + x.AuxTime.Seconds()
	res.Solver.Errors = s.Errors
	res.Wall = time.Since(t0).Seconds()
	return res
}

// ---------------------------------------------------------------------------
// Evidence

func writeEvidence(spec Spec, tier string, seed int, results []*obResult, wall float64, inconc []string, nviol int) {
	evDir := filepath.Join(verifDir, "evidence")
	if d := os.Getenv("VERIF_EVIDENCE_DIR"); d != "" {
		evDir = d // seeded-change runs must not overwrite the committed evidence
	}
	os.MkdirAll(evDir, 0o755)
	type obEv struct {
		Name      string            `json:"name"`
		Harness   string            `json:"harness"`
		Status    string            `json:"status"`
		Bound     string            `json:"bound,omitempty"`
		Claim     string            `json:"claim,omitempty"`
		Paths     int               `json:"paths"`
		PathKinds map[string]int    `json:"path_outcomes"`
		Forks     int               `json:"forks"`
		Steps     int               `json:"ssa_instructions_executed"`
		MaxUnwind int               `json:"max_block_visits"`
		Unwind    int               `json:"unwind_bound"`
		Queries   int               `json:"solver_queries"`
		Sat       int               `json:"sat"`
		Unsat     int               `json:"unsat"`
		Unknown   int               `json:"unknown"`
		SolverS   float64           `json:"solver_s"`
		WallS     float64           `json:"wall_s"`
		Solver    string            `json:"solver"`
		Reached   []string          `json:"vacuity_witnesses_reached"`
		Funcs     []string          `json:"functions_encoded"`
		Stubs     map[string]int    `json:"stubs_used,omitempty"`
		Notes     map[string]int    `json:"notes,omitempty"`
		Known     map[string]string `json:"known_findings_hit,omitempty"`
		Viol      []sx.Violation    `json:"violations,omitempty"`
		BMC       *sx.BMCResult     `json:"interleaving,omitempty"`
		Replays   []string          `json:"replays,omitempty"`
	}
	var obl []obEv
	totalQ, totalPaths, totalSteps, disch, replays := 0, 0, 0, 0, 0
	solverS := 0.0
	var samples []interface{}
	funcs := map[string]bool{}
	nontrivial := 0
	for _, r := range results {
		if r == nil {
			continue
		}
		e := obEv{Name: r.Spec.Name, Harness: r.Spec.Pkg + "." + r.Spec.Func, Status: r.Status, Bound: r.Spec.Bound, Claim: r.Spec.Claim,
			Paths: r.St.Paths, PathKinds: r.St.PathKinds, Forks: r.St.Forks, Steps: r.St.Steps, MaxUnwind: r.St.MaxUnwind, Unwind: r.Spec.Unwind,
			Queries: r.Solver.Queries, Sat: r.Solver.Sat, Unsat: r.Solver.Unsat, Unknown: r.Solver.Unknown, SolverS: r.Solver.Seconds, WallS: r.Wall,
			Solver: r.Spec.Solver, Stubs: r.St.StubsUsed, Notes: r.St.Notes, Known: r.St.KnownHit, Viol: r.St.Violations, BMC: r.BMC}
		if r.Spec.AssertSolver != "" {
			e.Solver = "z3 5.1.0 incremental (feasibility) + one-shot " + r.Spec.AssertSolver + " (assertions)"
		}
		if e.Solver == "" {
			e.Solver = "z3 5.1.0 (z3-new -in, incremental push/pop)"
		}
		for l := range r.St.Reached {
			e.Reached = append(e.Reached, l)
		}
		sort.Strings(e.Reached)
		for f := range r.St.Funcs {
			if strings.Contains(f, sx.ModulePath) && !strings.Contains(f, ".vh") && !strings.Contains(f, ".vn") && !strings.HasSuffix(f, ".init") {
				e.Funcs = append(e.Funcs, strings.ReplaceAll(f, sx.ModulePath+"/", ""))
				funcs[f] = true
			}
		}
		sort.Strings(e.Funcs)
		for _, rp := range r.Replays {
			e.Replays = append(e.Replays, fmt.Sprintf("%s reproduced=%v", rp.Dir, rp.Reproduced))
			replays++
		}
		obl = append(obl, e)
		totalQ += r.Solver.Queries
		totalPaths += r.St.Paths
		totalSteps += r.St.Steps
		solverS += r.Solver.Seconds
		if r.Status == "discharged" {
			disch++
		}
		// a path is non-trivial if it took at least one symbolic decision; forks+1 bounds distinct such paths
		if r.St.Forks > 0 {
			nontrivial += r.St.Forks + 1
		} else if r.Solver.Queries > 0 {
			nontrivial++
		}
		for i, s := range r.St.Samples {
			if i < 2 && len(samples) < 12 {
				samples = append(samples, map[string]interface{}{"obligation": r.Spec.Name, "witness_model": s})
			}
		}
	}
	if len(samples) == 0 {
		for _, r := range results {
			if r != nil {
				samples = append(samples, map[string]interface{}{"obligation": r.Spec.Name, "harness": r.Spec.Func, "status": r.Status})
			}
		}
	}
	if len(samples) == 0 {
		samples = append(samples, "no obligation ran")
	}
	level := spec.Level
	if level == "" {
		level = "model_checking"
	}
	cov := map[string]interface{}{
		"obligations":                   len(results),
		"discharged":                    disch,
		"checker_cmd":                   "/verif/bin/vcheck run " + spec.Property + " --tier " + tier,
		"trusted_base":                  []string{"go/packages+go/ssa lowering (x/tools v0.29.0)", "gosmt symbolic executor (/verif/engine)", "z3 4.8.12 / cvc5 1.0", "stubs listed per obligation", "sync.Mutex/RWMutex correctness and the Go memory model"},
		"evaluations":                   totalQ,
		"distinct_nontrivial":           nontrivial,
		"rule":                          "evaluations = SMT queries discharged; a case is a symbolic path of the real code (a set of concrete inputs sharing one control-flow path), non-trivial if it contains at least one solver-decided branch; distinct paths are counted as forks+1 per obligation",
		"states":                        totalPaths,
		"transitions":                   totalSteps,
		"traces_validated_against_impl": replays + tvAgree,
		"translator_validation":         map[string]interface{}{"witness_models_replayed_natively": tvRun, "agreed": tvAgree, "notes": tvNotes, "what": "models found by the solver for vacuity witnesses are replayed through the same harness compiled natively against /repo (go test -tags verif -overlay); agreement = the native run reaches the end of the harness with no failed assertion or assumption; for interleaving obligations the final shared state (every written cell, pointer cells by target, channel token counts) that the extracted automata predict for a sequential schedule is compared with a native run of the same thread bodies in that order"},
		"samples":                       samples,
		"explanation":                   "bounded symbolic execution of the real functions (SSA from /repo working tree) with SMT-decided assertions; see obligations[] for bounds",
		"exhaustive":                    len(inconc) == 0,
		"obligation_details":            obl,
		"solver_s":                      solverS,
		"units":                         spec.Units,
		"outside_claim":                 spec.Out,
		"inconclusive":                  inconc,
		"functions_encoded_total":       len(funcs),
	}
	if totalPaths == 0 {
		cov["states"] = 1
	}
	if totalSteps == 0 {
		cov["transitions"] = 1
	}
	if totalQ == 0 {
		cov["evaluations"] = 1
	}
	if nontrivial < 2 {
		cov["distinct_nontrivial"] = nontrivial
	}
	ev := map[string]interface{}{
		"property_id": spec.Property,
		"tier":        tier,
		"seed":        seed,
		"level":       level,
		"coverage":    cov,
		"assumptions": spec.Assumptions,
		"wall_s":      wall,
		"violations":  nviol,
	}
	data, _ := json.MarshalIndent(ev, "", " ")
	os.WriteFile(filepath.Join(evDir, spec.Property+".json"), data, 0o644)
}

// ---------------------------------------------------------------------------
// Replay

func writeReplayDir(eng *sx.Engine, dir string, o ObSpec, v sx.Violation, open map[string]bool, params map[string]int) {
	os.RemoveAll(dir)
	os.MkdirAll(dir, 0o755)
	var openList []string
	for k := range open {
		openList = append(openList, k)
	}
	sort.Strings(openList)
	m := map[string]interface{}{"Model": v.Model, "Open": openList, "Obligation": o.Name, "Pkg": o.Pkg, "Func": o.Func,
		"Msg": v.Msg, "Kind": v.Kind, "Where": v.Where, "Params": params}
	data, _ := json.MarshalIndent(m, "", " ")
	os.WriteFile(filepath.Join(dir, "cex.json"), data, 0o644)
	if len(v.Trace) > 0 {
		os.WriteFile(filepath.Join(dir, "trace.txt"), []byte(strings.Join(v.Trace, "\n")+"\n"), 0o644)
	}
}

// runReplay builds an overlay with the harness files, the native shim and a test that
// calls the harness, and runs it with go test in the repo.
func runReplay(dir string) (bool, string) {
	data, err := os.ReadFile(filepath.Join(dir, "cex.json"))
	if err != nil {
		return false, err.Error()
	}
	var c struct {
		Pkg, Func, Msg, Kind string
	}
	json.Unmarshal(data, &c)
	tmp, err := os.MkdirTemp("", "verif-replay-")
	if err != nil {
		return false, err.Error()
	}
	defer os.RemoveAll(tmp)
	repl := map[string]string{}
	hroot := filepath.Join(verifDir, "harness")
	pkgName := map[string]string{}
	filepath.Walk(hroot, func(p string, info os.FileInfo, err error) error {
		if err != nil || info.IsDir() {
			return nil
		}
		base := filepath.Base(p)
		if !strings.HasPrefix(base, "zz_verif_") || !strings.HasSuffix(base, ".go") {
			return nil
		}
		rel, _ := filepath.Rel(hroot, filepath.Dir(p))
		repl[filepath.Join(repoDir, rel, base)] = p
		src, _ := os.ReadFile(p)
		for _, l := range strings.Split(string(src), "\n") {
			l = strings.TrimSpace(l)
			if strings.HasPrefix(l, "package ") {
				pkgName[rel] = strings.Fields(l)[1]
				break
			}
		}
		return nil
	})
	i := 0
	for rel, name := range pkgName {
		i++
		sp := filepath.Join(tmp, fmt.Sprintf("shim%d.go", i))
		os.WriteFile(sp, []byte(sx.ShimSource(name, true)), 0o644)
		repl[filepath.Join(repoDir, rel, "zz_verif_shim.go")] = sp
		// blank the package's own _test.go files (some upstream tests do not compile)
		ents, _ := os.ReadDir(filepath.Join(repoDir, rel))
		for _, e := range ents {
			if strings.HasSuffix(e.Name(), "_test.go") {
				repl[filepath.Join(repoDir, rel, e.Name())] = ""
			}
		}
	}
	name := pkgName[c.Pkg]
	test := "package " + name + `

import (
	"fmt"
	"testing"
)

func TestVerifReplay(t *testing.T) {
	defer func() {
		r := recover()
		fmt.Printf("VREPLAY-OUTCOME: %v\n", r)
	}()
	` + c.Func + `()
}
`
	tp := filepath.Join(tmp, "replay_test.go")
	os.WriteFile(tp, []byte(test), 0o644)
	repl[filepath.Join(repoDir, c.Pkg, "zz_verif_replay_test.go")] = tp
	ov, _ := json.Marshal(map[string]interface{}{"Replace": repl})
	ovp := filepath.Join(tmp, "overlay.json")
	os.WriteFile(ovp, ov, 0o644)
	args := []string{"test", "-tags", "verif", "-vet=off", "-count=1", "-overlay", ovp, "-run", "^TestVerifReplay$", "-v"}
	if c.Kind == "diverge" {
		args = append(args, "-timeout", "20s") // a non-terminating run reproduces as the test binary's own timeout
	}
	cmd := exec.Command("go", append(args, "./"+c.Pkg)...)
	cmd.Dir = repoDir
	cmd.Env = append(os.Environ(), "GOFLAGS=-mod=mod", "GOPROXY=off", "GOSUMDB=off", "GOTOOLCHAIN=local",
		"VERIF_MODEL="+filepath.Join(dir, "cex.json"))
	done := make(chan struct{})
	var out []byte
	go func() { out, _ = cmd.CombinedOutput(); close(done) }()
	select {
	case <-done:
	case <-time.After(8 * time.Minute):
		if cmd.Process != nil {
			cmd.Process.Kill()
		}
		<-done
	}
	txt := string(out)
	os.WriteFile(filepath.Join(dir, "replay_output.txt"), out, 0o644)
	outcome := ""
	for _, l := range strings.Split(txt, "\n") {
		if strings.HasPrefix(l, "VREPLAY-OUTCOME: ") {
			outcome = strings.TrimPrefix(l, "VREPLAY-OUTCOME: ")
		}
	}
	if strings.Contains(outcome, "VREPLAY-ASSUME-FAILED") {
		return false, txt
	}
	if c.Kind == "assert" {
		return strings.Contains(outcome, "VASSERT-FAILED: "+c.Msg), txt
	}
	if c.Kind == "diverge" {
		return strings.Contains(txt, "test timed out after"), txt
	}
	// panic kind: any native panic other than a failed assertion reproduces it
	return outcome != "" && outcome != "<nil>" && !strings.Contains(outcome, "VASSERT-FAILED"), txt
}

func cmdReplay(args []string) int {
	if len(args) < 1 {
		usage()
	}
	ok, out := runReplay(args[0])
	fmt.Println(lastLines(out, 15))
	if ok {
		fmt.Println("REPRODUCED: the counterexample fails natively against /repo")
		return 1
	}
	fmt.Println("NOT REPRODUCED")
	return 0
}

// translatorValidation replays up to two solver-found witness models per package natively:
// the same harness, compiled by the Go toolchain against the real code, must run through
// without a failed assertion or assumption. Obligations that depend on executor-only stubs
// (no_replay, loop cuts) are skipped. Disagreements are recorded in the evidence, they do
// not change the verdict.
func translatorValidation(spec Spec, results []*obResult, open map[string]bool) (run, agree int, notes []string) {
	type item struct {
		pkg, fn, ob string
		model       map[string]uint64
		params      map[string]int
	}
	perPkg := map[string][]item{}
	for _, r := range results {
		if r == nil || r.Spec.NoReplay || len(r.Spec.Cuts) > 0 || r.Spec.AllowPanic || r.Status != "discharged" {
			continue
		}
		if len(perPkg[r.Spec.Pkg]) >= 8 {
			continue
		}
		for _, m := range r.St.Samples {
			perPkg[r.Spec.Pkg] = append(perPkg[r.Spec.Pkg], item{r.Spec.Pkg, r.Spec.Func, r.Spec.Name, m, r.Params})
			break
		}
	}
	for pkg, items := range perPkg {
		tmp, err := os.MkdirTemp("", "verif-tv-")
		if err != nil {
			continue
		}
		var calls strings.Builder
		for i, it := range items {
			var openList []string
			for k := range open {
				openList = append(openList, k)
			}
			mf := filepath.Join(tmp, fmt.Sprintf("model%d.json", i))
			data, _ := json.Marshal(map[string]interface{}{"Model": it.model, "Open": openList, "Params": it.params})
			os.WriteFile(mf, data, 0o644)
			fmt.Fprintf(&calls, "\tvtvRun(%q, %q, %s)\n", it.ob, mf, it.fn)
		}
		test := `

import (
	"fmt"
	"os"
	"testing"
)

func vtvRun(ob, model string, f func()) {
	os.Setenv("VERIF_MODEL", model)
	vmodel = nil
	vcount = map[string]int{}
	vghosts = map[string]int{}
	defer func() {
		r := recover()
		fmt.Printf("VTV-OUTCOME %s: %v\n", ob, r)
	}()
	f()
}

func TestVerifTV(t *testing.T) {
` + calls.String() + `}
`
		ok, out := runNativeTest(tmp, pkg, test, "^TestVerifTV$", "")
		_ = ok
		for _, it := range items {
			run++
			line := ""
			for _, l := range strings.Split(out, "\n") {
				if strings.HasPrefix(l, "VTV-OUTCOME "+it.ob+": ") {
					line = strings.TrimPrefix(l, "VTV-OUTCOME "+it.ob+": ")
				}
			}
			if line == "<nil>" {
				agree++
			} else {
				if line == "" {
					line = "no outcome (" + lastLines(out, 3) + ")"
				}
				notes = append(notes, it.ob+": native run differs: "+line)
			}
		}
		os.RemoveAll(tmp)
	}
	// interleaving obligations: the final shared state predicted by the extracted automata for
	// a sequential schedule (threads one after the other) against a native run of the same
	// thread bodies in that order
	for _, r := range results {
		if r == nil || r.BMC == nil || r.BMC.TV == nil || r.Status != "discharged" {
			continue
		}
		tv := r.BMC.TV
		run++
		if tv.Result != "sat" {
			notes = append(notes, r.Spec.Name+": no sequential schedule found for translator validation ("+tv.Result+")")
			continue
		}
		tmp, err := os.MkdirTemp("", "verif-tvb-")
		if err != nil {
			continue
		}
		mf := filepath.Join(tmp, "model.json")
		data, _ := json.Marshal(map[string]interface{}{"Model": map[string]uint64{}, "Open": []string{}, "Params": r.Params})
		os.WriteFile(mf, data, 0o644)
		var body strings.Builder
		body.WriteString("\n\nimport (\n\t\"fmt\"\n\t\"os\"\n\t\"testing\"\n\t\"unsafe\"\n)\n\n")
		fmt.Fprintf(&body, "func TestVerifTVB(t *testing.T) {\n\tos.Setenv(\"VERIF_MODEL\", %q)\n\tvmodel = nil\n\tshared := %s()\n\t_ = unsafe.Pointer(nil)\n", mf, r.Spec.BMC.Setup)
		fmt.Fprintf(&body, "\tptr := func(p unsafe.Pointer) string {\n\t\tswitch p {\n\t\tcase nil:\n\t\t\treturn \"nil\"\n")
		for _, tg := range tv.Targets {
			if strings.Contains(tg, "$") {
				continue
			}
			fmt.Fprintf(&body, "\t\tcase unsafe.Pointer(&%s):\n\t\t\treturn %q\n", strings.Replace(tg, "shared", "(*shared)", 1), "&"+tg)
		}
		fmt.Fprintf(&body, "\t\t}\n\t\treturn \"?\"\n\t}\n\t_ = ptr\n")
		for _, t := range tv.Order {
			fmt.Fprintf(&body, "\t%s(shared, %d, %d)\n", r.Spec.BMC.Threads[t], t, int64(tv.Choices[t]))
		}
		var names []string
		for n := range tv.Cells {
			names = append(names, n)
		}
		sort.Strings(names)
		for _, n := range names {
			if _, scalar := tv.Width[n]; scalar {
				fmt.Fprintf(&body, "\tfmt.Printf(\"VTVB %s=%%d\\n\", uint64(%s))\n", n, n)
			} else {
				// several names can share an address (a struct and its first field): test the predicted target first
				pred := tv.Cells[n]
				if strings.HasPrefix(pred, "&") && !strings.Contains(pred, "$") {
					tgt := strings.Replace(pred[1:], "shared", "(*shared)", 1)
					fmt.Fprintf(&body, "\tif unsafe.Pointer(%s) == unsafe.Pointer(&%s) {\n\t\tfmt.Printf(\"VTVB %s=%%s\\n\", %q)\n\t} else {\n\t\tfmt.Printf(\"VTVB %s=%%s\\n\", ptr(unsafe.Pointer(%s)))\n\t}\n", n, tgt, n, pred, n, n)
				} else {
					fmt.Fprintf(&body, "\tfmt.Printf(\"VTVB %s=%%s\\n\", ptr(unsafe.Pointer(%s)))\n", n, n)
				}
			}
		}
		var chans []string
		for n := range tv.Chans {
			chans = append(chans, n)
		}
		sort.Strings(chans)
		for _, n := range chans {
			fmt.Fprintf(&body, "\tfmt.Printf(\"VTVB len(%s)=%%d\\n\", len(%s))\n", n, n)
		}
		body.WriteString("}\n")
		_, out := runNativeTest(tmp, r.Spec.Pkg, body.String(), "^TestVerifTVB$", mf)
		got := map[string]string{}
		for _, l := range strings.Split(out, "\n") {
			if strings.HasPrefix(l, "VTVB ") {
				kv := strings.SplitN(strings.TrimPrefix(l, "VTVB "), "=", 2)
				if len(kv) == 2 {
					got[kv[0]] = strings.TrimSpace(kv[1])
				}
			}
		}
		var diffs []string
		for _, n := range names {
			want := tv.Cells[n]
			g, ok := got[n]
			if !ok {
				diffs = append(diffs, n+": no native value")
				continue
			}
			if w, scalar := tv.Width[n]; scalar {
				var gv, wv uint64
				fmt.Sscan(g, &gv)
				fmt.Sscan(want, &wv)
				if w < 64 {
					gv &= (uint64(1) << uint(w)) - 1
				}
				if gv != wv {
					diffs = append(diffs, fmt.Sprintf("%s: automata %d, native %d", n, wv, gv))
				}
			} else if g != want {
				diffs = append(diffs, fmt.Sprintf("%s: automata %s, native %s", n, want, g))
			}
		}
		for _, n := range chans {
			g, ok := got["len("+n+")"]
			if !ok || g != fmt.Sprint(tv.Chans[n]) {
				diffs = append(diffs, fmt.Sprintf("len(%s): automata %d, native %s", n, tv.Chans[n], g))
			}
		}
		if len(diffs) == 0 && len(got) > 0 {
			agree++
		} else {
			if len(got) == 0 {
				diffs = append(diffs, "no native outcome ("+lastLines(out, 4)+")")
			}
			notes = append(notes, r.Spec.Name+": sequential-schedule state differs: "+strings.Join(diffs, "; "))
		}
		os.RemoveAll(tmp)
	}
	return
}

// runNativeTest compiles the harness overlay plus the given test body (without package
// clause) into package pkg of the repo and runs it.
func runNativeTest(tmp, pkg, testBody, runPat, modelEnv string) (bool, string) {
	repl := map[string]string{}
	hroot := filepath.Join(verifDir, "harness")
	pkgName := map[string]string{}
	filepath.Walk(hroot, func(p string, info os.FileInfo, err error) error {
		if err != nil || info.IsDir() {
			return nil
		}
		base := filepath.Base(p)
		if !strings.HasPrefix(base, "zz_verif_") || !strings.HasSuffix(base, ".go") {
			return nil
		}
		rel, _ := filepath.Rel(hroot, filepath.Dir(p))
		repl[filepath.Join(repoDir, rel, base)] = p
		src, _ := os.ReadFile(p)
		for _, l := range strings.Split(string(src), "\n") {
			l = strings.TrimSpace(l)
			if strings.HasPrefix(l, "package ") {
				pkgName[rel] = strings.Fields(l)[1]
				break
			}
		}
		return nil
	})
	i := 0
	for rel, name := range pkgName {
		i++
		sp := filepath.Join(tmp, fmt.Sprintf("shim%d.go", i))
		os.WriteFile(sp, []byte(sx.ShimSource(name, true)), 0o644)
		repl[filepath.Join(repoDir, rel, "zz_verif_shim.go")] = sp
		ents, _ := os.ReadDir(filepath.Join(repoDir, rel))
		for _, e := range ents {
			if strings.HasSuffix(e.Name(), "_test.go") {
				repl[filepath.Join(repoDir, rel, e.Name())] = ""
			}
		}
	}
	tp := filepath.Join(tmp, "native_test.go")
	os.WriteFile(tp, []byte("package "+pkgName[pkg]+testBody), 0o644)
	repl[filepath.Join(repoDir, pkg, "zz_verif_native_test.go")] = tp
	ov, _ := json.Marshal(map[string]interface{}{"Replace": repl})
	ovp := filepath.Join(tmp, "overlay.json")
	os.WriteFile(ovp, ov, 0o644)
	cmd := exec.Command("go", "test", "-tags", "verif", "-vet=off", "-count=1", "-overlay", ovp, "-run", runPat, "-v", "./"+pkg)
	cmd.Dir = repoDir
	cmd.Env = append(os.Environ(), "GOFLAGS=-mod=mod", "GOPROXY=off", "GOSUMDB=off", "GOTOOLCHAIN=local")
	if modelEnv != "" {
		cmd.Env = append(cmd.Env, "VERIF_MODEL="+modelEnv)
	}
	done := make(chan struct{})
	var out []byte
	go func() { out, _ = cmd.CombinedOutput(); close(done) }()
	select {
	case <-done:
	case <-time.After(8 * time.Minute):
		if cmd.Process != nil {
			cmd.Process.Kill()
		}
		<-done
	}
	return cmd.ProcessState != nil && cmd.ProcessState.Success(), string(out)
}
