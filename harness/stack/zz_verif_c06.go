package stack

import (
	tcpip "github.com/brewlin/net-protocol/protocol"
)

// ---------- C06: route selection ----------
// two route entries over two NICs with 0..2 addresses each: the first entry whose NIC and
// mask match and whose NIC has a usable address is chosen; the source is one of that NIC's
// addresses.
func vh_find_route() {
	s := VHStack()
	np := &vhNetProto{}
	VHAddProtocols(s, []NetworkProtocol{np}, nil)
	nics := []*NIC{VHNIC(s, 1, &VHLink{Mtu: 1500, Addr: "\x02\x00\x00\x00\x00\x01"}), VHNIC(s, 2, &VHLink{Mtu: 1500, Addr: "\x02\x00\x00\x00\x00\x02"})}
	var addrs [2][]tcpip.Address
	for i, n := range nics {
		k := vnChoice("naddr", 3)
		for j := 0; j < k; j++ {
			a := vhAddr4("nicaddr")
			for _, o := range addrs[i] {
				vassume(o != a)
			}
			vassume(a != "\xff\xff\xff\xff" && a != "\x00\x00\x00\x00")
			vassert(n.AddAddress(vhNetP, a) == nil, "address added")
			addrs[i] = append(addrs[i], a)
		}
	}
	for i := 0; i < 2; i++ {
		dst, mask := vnString("rtdst", 4), vnString("rtmask", 4)
		s.routeTable = append(s.routeTable, tcpip.Route{Destination: tcpip.Address(dst), Mask: tcpip.AddressMask(mask), NIC: tcpip.NICID(1 + vnChoice("rtnic", 2))})
	}
	remote := vhAddr4("remote")
	r, err := s.FindRoute(0, "", remote, vhNetP)
	// oracle
	want := -1
	for i, rt := range s.routeTable {
		match := true
		for b := 0; b < 4; b++ {
			if remote[b]&rt.Mask[b] != rt.Destination[b] {
				match = false
			}
		}
		if match && len(addrs[rt.NIC-1]) > 0 {
			want = i
			break
		}
	}
	if want < 0 {
		vassert(err == tcpip.ErrNoRoute, "without a matching route entry on a NIC with an address there is no route")
		vreach("noroute")
		return
	}
	vassert(err == nil, "a matching entry yields a route")
	nicID := s.routeTable[want].NIC
	vassert(r.NICID() == nicID, "the interface is that of the first matching route entry")
	vassert(r.LocalAddress == addrs[nicID-1][0], "the source is the primary (first) address of that interface")
	vassert(r.RemoteAddress == remote && r.LocalLinkAddress == nics[nicID-1].linkEP.LinkAddress(), "remote address and local link address are filled in")
	vreach("route")
}

// FindRoute with a requested local address, with and without spoofing: the source is the
// requested address only if it is an address of the interface (or spoofing is enabled), and
// a spoofed route never changes the source of later routes of unbound sockets.
func vh_find_route_local() {
	s := VHStack()
	np := &vhNetProto{}
	VHAddProtocols(s, []NetworkProtocol{np}, nil)
	n := VHNIC(s, 1, &VHLink{Mtu: 1500, Addr: "\x02\x00\x00\x00\x00\x01"})
	a := vhAddr4("nicaddr")
	vassume(a != "\xff\xff\xff\xff" && a != "\x00\x00\x00\x00")
	vassert(n.AddAddress(vhNetP, a) == nil, "address added")
	spoof := vnBool("spoofing")
	n.spoofing = spoof
	s.routeTable = []tcpip.Route{{Destination: "\x00\x00\x00\x00", Mask: "\x00\x00\x00\x00", NIC: 1}}
	remote := vhAddr4("remote")
	local := vhAddr4("local")
	vassume(local != "\xff\xff\xff\xff" && local != "\x00\x00\x00\x00")
	r1, err := s.FindRoute(0, local, remote, vhNetP)
	if local == a {
		vassert(err == nil && r1.LocalAddress == a, "a bound socket's source is its own address when the interface has it")
		vreach("own")
	} else if spoof {
		vassert(err == nil && r1.LocalAddress == local, "with spoofing enabled the requested source is used")
		vreach("spoofed")
	} else {
		vassert(err == tcpip.ErrNoRoute, "a source that is not an address of the interface gives no route")
		vreach("refused")
	}
	// an unbound socket afterwards (the first route still alive)
	r2, err2 := s.FindRoute(0, "", remote, vhNetP)
	vassert(err2 == nil && r2.LocalAddress == a, "the source of an unbound socket is an address of the interface, whatever routes exist")
	vassert(r2.LocalLinkAddress == n.linkEP.LinkAddress() && r2.RemoteAddress == remote, "link address and remote filled in")
}

// CheckLocalAddress (used by ARP and NDP to decide whether to answer for an address): with an
// interface given, only that interface's own addresses count; with none, any interface's.
func vh_check_local_address() {
	s := VHStack()
	np := &vhNetProto{}
	VHAddProtocols(s, []NetworkProtocol{np}, nil)
	n1 := VHNIC(s, 1, &VHLink{Mtu: 1500, Addr: "\x02\x00\x00\x00\x00\x01"})
	n2 := VHNIC(s, 2, &VHLink{Mtu: 1500, Addr: "\x02\x00\x00\x00\x00\x02"})
	a1, a2 := vhAddr4("addr1"), vhAddr4("addr2")
	vassume(a1 != a2)
	vassert(n1.AddAddress(vhNetP, a1) == nil && n2.AddAddress(vhNetP, a2) == nil, "addresses added")
	q := vhAddr4("query")
	id := tcpip.NICID(vnChoice("nicid", 4)) // 0 = any interface, 3 = no such interface
	got := s.CheckLocalAddress(id, vhNetP, q)
	want := tcpip.NICID(0)
	switch id {
	case 0:
		if q == a1 {
			want = 1
		} else if q == a2 {
			want = 2
		}
	case 1:
		if q == a1 {
			want = 1
		}
	case 2:
		if q == a2 {
			want = 2
		}
	}
	vassert(got == want, "an address is local to an interface only if that interface has it (another interface's address is not answered for)")
	if id == 1 && q == a2 {
		vreach("other-nic")
	}
	vreach("checked")
}
