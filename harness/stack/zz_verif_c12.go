package stack

import (
	"time"

	"github.com/brewlin/net-protocol/pkg/sleep"
	tcpip "github.com/brewlin/net-protocol/protocol"
)

// ---------- C12: link address cache ----------

func vhKey(name string) tcpip.FullAddress {
	return tcpip.FullAddress{NIC: 1, Addr: tcpip.Address(vnString(name, 4))}
}

func vhCacheInv(c *linkAddrCache) bool {
	ok := true
	for k, e := range c.cache {
		ok = vand(ok, e.addr == k)
	}
	return ok
}

// vhCache builds a cache with 0..2 entries added through the real add(), and the ring
// index moved to an arbitrary position (0, 1, or the last slot).
func vhCache() (*linkAddrCache, []tcpip.FullAddress, []tcpip.LinkAddress) {
	c := newLinkAddrCache(time.Duration(vnU32("agelimit"))*time.Millisecond, time.Second, 3)
	switch vnChoice("ring", 3) {
	case 1:
		c.next = 1
	case 2:
		c.next = linkAddrCacheSize - 1
	}
	n := vnChoice("nentries", 3)
	first := c.next
	var ks []tcpip.FullAddress
	var vs []tcpip.LinkAddress
	defer func() {
		// optionally the first address was re-learnt with a new link address (its old slot
		// is now stale) and the ring has wrapped around to that stale slot
		if n > 0 && vnBool("stale") {
			v2 := tcpip.LinkAddress(vnString("mac2", 6))
			vassume(v2 != vs[0])
			c.add(ks[0], v2)
			vs[0] = v2
			c.next = first
		}
	}()
	for i := 0; i < n; i++ {
		k := vhKey("k")
		for _, o := range ks {
			vassume(o != k)
		}
		v := tcpip.LinkAddress(vnString("mac", 6))
		c.add(k, v)
		ks = append(ks, k)
		vs = append(vs, v)
	}
	return c, ks, vs
}

type vhRes struct{ reqs int }

func (r *vhRes) LinkAddressRequest(addr, localAddr tcpip.Address, linkEP LinkEndpoint) *tcpip.Error {
	r.reqs++
	return nil
}
func (r *vhRes) ResolveStaticAddress(addr tcpip.Address) (tcpip.LinkAddress, bool) { return "", false }
func (r *vhRes) LinkAddressProtocol() tcpip.NetworkProtocolNumber                  { return 0x0800 }

// O3: lookups never report an entry for a different address or after it expired
func vh_cache_get() {
	c, ks, vs := vhCache()
	vassert(vhCacheInv(c), "cache[k].addr == k")
	q := vhKey("q")
	var w sleep.Waker
	before := time.Now()
	la, ch, err := c.get(q, nil, "", nil, &w)
	idx := -1
	for i, k := range ks {
		if k == q {
			idx = i
		}
	}
	if err == nil {
		vassert(idx >= 0 && la == vs[idx], "a link address is reported only from the entry of exactly the requested address")
		vassert(!before.After(c.cache[q].expiration), "and only before that entry expires")
		vassert(ch == nil, "no wait channel with an answer")
		vreach("hit")
	} else {
		vassert(la == "", "no link address on a miss")
		if idx >= 0 {
			vassert(time.Now().After(c.cache[q].expiration), "a known address misses only after its entry expired")
			vreach("expired")
		} else {
			vreach("miss")
		}
		vassert(err == tcpip.ErrNoLinkAddress, "without a resolver an unknown address fails with a no-link-address error")
	}
	vassert(vhCacheInv(c), "invariant kept")
}

// O3: add (new, same, overwrite, eviction of the recycled slot only)
func vh_cache_add() {
	vclockFreeze()
	c, ks, vs := vhCache()
	k := vhKey("newk")
	v := tcpip.LinkAddress(vnString("newmac", 6))
	slot := &c.entries[c.next]
	evicted := slot.addr
	evictedLive := c.cache[evicted] == slot
	c.add(k, v)
	vassert(vhCacheInv(c), "add keeps cache[k].addr == k")
	var w sleep.Waker
	la, _, err := c.get(k, nil, "", nil, &w)
	vassert(err == nil && la == v, "after add(k,v) a lookup of k returns v (a new link address replaces the old one)")
	for i, o := range ks {
		if o == k {
			continue
		}
		la2, _, err2 := c.get(o, nil, "", nil, &w)
		if evictedLive && o == evicted && c.cache[o] == nil {
			vassert(err2 != nil, "only the recycled slot's address is evicted")
			vreach("evicted")
			continue
		}
		vassert(err2 == nil && la2 == vs[i], "other entries are unaffected by add")
	}
	vreach("added")
}

// O4: resolution is retried at most resolutionAttempts times and then fails explicitly
func vh_cache_resolution() {
	vclockFreeze()
	c := newLinkAddrCache(time.Hour, time.Second, 3)
	res := &vhRes{}
	k := vhKey("k")
	var w sleep.Waker
	la, ch, err := c.get(k, res, "", nil, &w)
	vassert(la == "" && ch != nil && err == tcpip.ErrWouldBlock, "an unknown next hop makes the caller wait (nothing is reported)")
	vassert(vghostGet("go") == 1, "a resolution goroutine is started")
	e := c.cache[k]
	// a second operation needing the same next hop while resolution is pending waits on
	// the same entry: no second goroutine, and it is woken with the first
	var w2 sleep.Waker
	la1, ch1, err1 := c.get(k, res, "", nil, &w2)
	vassert(la1 == "" && ch1 != nil && err1 == tcpip.ErrWouldBlock && vghostGet("go") == 1, "a second waiter joins the pending resolution")
	if vnBool("evict") {
		// the ring wraps onto the pending entry: its waiters must not be left hanging
		for i := range c.entries {
			if &c.entries[i] == e {
				c.next = i
			}
		}
		k2 := vhKey("k2")
		vassume(k2 != k)
		c.add(k2, tcpip.LinkAddress(vnString("mac2", 6)))
		vassert(w.IsAsserted() && w2.IsAsserted(), "waiters of a pending entry whose slot is recycled are woken")
		closed := false
		select {
		case <-ch:
			closed = true
		default:
		}
		vassert(closed, "and its wait channel is closed")
		vreach("evicted-pending")
		return
	}
	replied := vnBool("replied")
	if replied {
		c.add(k, tcpip.LinkAddress(vnString("mac", 6)))
	}
	c.startAddressResolution(k, res, "", nil, e.done) // the goroutine's body
	if replied {
		vassert(res.reqs <= 1, "after the reply no further request is sent")
		la2, _, err2 := c.get(k, res, "", nil, &w)
		vassert(err2 == nil && la2 == c.cache[k].linkAddr, "the waiting operation proceeds with the learned address")
		vassert(w.IsAsserted() && w2.IsAsserted(), "every waiter is woken")
		vreach("resolved")
		return
	}
	vassert(res.reqs == 3, "a request is sent at the start of each of exactly three rounds")
	vassert(e.s == failed, "after the retry budget the entry is failed")
	vassert(w.IsAsserted() && w2.IsAsserted(), "every waiter is woken")
	_, _, err3 := c.get(k, res, "", nil, &w)
	vassert(err3 == tcpip.ErrNoLinkAddress, "afterwards the lookup fails with a no-link-address error")
	// a failed entry ages out like any other: after its expiry a new lookup starts a new resolution
	c.cache[k].expiration = time.Now().Add(-time.Second)
	_, ch4, err4 := c.get(k, res, "", nil, &w)
	vassert(err4 == tcpip.ErrWouldBlock && ch4 != nil && vghostGet("go") == 2, "once the failed entry has expired the next lookup resolves again (a failure is not remembered forever)")
	vreach("failed")
}

// Route.Resolve asks for the link address of the next hop: the gateway when the route has
// one, the destination itself otherwise; nothing is asked when no resolution is needed.
func vh_route_resolve() {
	s := VHStack()
	link := &VHLink{Mtu: 1500, Addr: "\x02\x00\x00\x00\x00\x01", Caps: CapabilityResolutionRequired}
	nic := VHNIC(s, 1, link)
	lc := &VHLinkCache{Link: tcpip.LinkAddress(vnString("mac", 6))}
	if vnBool("pending") {
		lc.Err = tcpip.ErrWouldBlock
		lc.Link = ""
	}
	local, remote := vhAddr4("local"), vhAddr4("remote")
	r := VHRoute(nic, &VHNet{Mtu: 1480, Ttl: 64, Nic: 1}, 0x0800, local, remote, lc)
	if vnBool("gateway") {
		r.NextHop = vhAddr4("gw")
		vassume(r.NextHop != remote)
		vreach("gateway")
	}
	var w sleep.Waker
	_, err := r.Resolve(&w)
	if remote == local && r.NextHop == "" {
		vassert(err == nil && len(lc.Asked) == 0 && r.RemoteLinkAddress == r.LocalLinkAddress, "a packet to the interface's own address needs no resolution")
		vreach("self")
		return
	}
	want := remote
	if r.NextHop != "" {
		want = r.NextHop
	}
	vassert(len(lc.Asked) == 1 && lc.Asked[0] == want, "exactly the next hop (gateway if any, else the destination) is resolved")
	if lc.Err != nil {
		vassert(err == lc.Err && r.RemoteLinkAddress == "", "while resolution is pending no link address is used")
		vreach("pending")
	} else {
		vassert(err == nil && r.RemoteLinkAddress == lc.Link, "the resolved address becomes the frame's destination")
		vreach("resolved")
	}
}

// C07 / C12: an address learnt from the network (ARP reply, neighbour advertisement, or a
// request addressed to us) for a key whose cache entry is in ANY state - still resolving,
// ready, failed after the retry budget, or expired - never panics the delivery path, and
// the learnt address is what lookups report afterwards.
func vh_cache_add_states() {
	vclockFreeze()
	c := newLinkAddrCache(time.Minute, time.Second, 3)
	k := vhKey("k")
	st := vnChoice("state", 4)
	v0 := tcpip.LinkAddress(vnString("oldmac", 6))
	switch st {
	case 0: // resolution in progress
		c.makeAndAddEntry(k, "")
	case 1:
		c.add(k, v0)
	case 2: // resolution gave up
		e := c.makeAndAddEntry(k, "")
		e.changeState(failed)
	case 3:
		c.add(k, v0)
		c.cache[k].changeState(expired)
	}
	vassert(vhCacheInv(c), "cache[k].addr == k")
	v := tcpip.LinkAddress(vnString("newmac", 6))
	c.add(k, v)
	var w sleep.Waker
	la, _, err := c.get(k, nil, "", nil, &w)
	vassert(err == nil && la == v, "after add(k,v) a lookup of k returns v whatever state the old entry was in")
	vassert(vhCacheInv(c), "add keeps cache[k].addr == k")
	vreach("added")
}
