package stack

import (
	"github.com/brewlin/net-protocol/pkg/buffer"
	"github.com/brewlin/net-protocol/pkg/waiter"
	tcpip "github.com/brewlin/net-protocol/protocol"
)

// ---------- C09: demultiplexing ----------

// capture transport endpoint
type vhTEP struct {
	pkts  int
	ctrl  int
	lastI TransportEndpointID
}

func (t *vhTEP) HandlePacket(r *Route, id TransportEndpointID, vv buffer.VectorisedView) {
	t.pkts++
	t.lastI = id
}
func (t *vhTEP) HandleControlPacket(id TransportEndpointID, typ ControlType, extra uint32, vv buffer.VectorisedView) {
	t.ctrl++
}

const (
	vhNetP   tcpip.NetworkProtocolNumber   = 0x0800
	vhTransP tcpip.TransportProtocolNumber = 17
)

func vhAddr4(name string) tcpip.Address { return tcpip.Address(vnString(name, 4)) }

// an arbitrary registered id: connected (4-tuple), or listener (no remote), each with a
// specific or wildcard local address
func vhRegID(name string) TransportEndpointID {
	id := TransportEndpointID{LocalPort: vnU16(name + ".lport")}
	if vnBool(name + ".localspecific") {
		id.LocalAddress = vhAddr4(name + ".laddr")
	}
	if vnBool(name + ".connected") {
		id.RemotePort = vnU16(name + ".rport")
		id.RemoteAddress = vhAddr4(name + ".raddr")
	}
	return id
}

// specificity rank of registered id g for packet id p (0 = no match; larger = more specific)
func vhRank(g, p TransportEndpointID) int {
	if g.LocalPort != p.LocalPort {
		return 0
	}
	conn := g.RemoteAddress != ""
	if conn {
		if g.RemotePort != p.RemotePort || g.RemoteAddress != p.RemoteAddress {
			return 0
		}
	} else if g.RemotePort != 0 {
		return 0
	}
	if g.LocalAddress != "" {
		if g.LocalAddress != p.LocalAddress {
			return 0
		}
		if conn {
			return 4
		}
		return 2
	}
	if conn {
		return 3
	}
	return 1
}

func vhDemux() (*Stack, *transportDemuxer) {
	s := VHStack()
	d := &transportDemuxer{protocol: make(map[protocolIDs]*transportEndpoints)}
	d.protocol[protocolIDs{vhNetP, vhTransP}] = &transportEndpoints{endpoints: make(map[TransportEndpointID]TransportEndpoint)}
	s.demux = d
	return s, d
}

// O1/O2: a packet goes to exactly the most specific matching socket, once, or to nobody.
func vh_demux_deliver() {
	s, d := vhDemux()
	link := &VHLink{Mtu: 1500}
	nic := VHNIC(s, 1, link)
	k := vnChoice("nsockets", vparam("sockets", 3)+1)
	ids := make([]TransportEndpointID, k)
	eps := make([]*vhTEP, k)
	for i := 0; i < k; i++ {
		ids[i] = vhRegID("sock")
		eps[i] = &vhTEP{}
		err := d.registerEndpoint([]tcpip.NetworkProtocolNumber{vhNetP}, vhTransP, ids[i], eps[i])
		dup := false
		for j := 0; j < i; j++ {
			if eps[j] != nil && ids[j] == ids[i] {
				dup = true
			}
		}
		if dup {
			vassert(err == tcpip.ErrPortInUse, "registering an id that is already taken is refused with ErrPortInUse")
			eps[i] = nil
			vreach("dup")
		} else {
			vassert(err == nil, "registering a free id succeeds")
		}
	}
	p := TransportEndpointID{LocalPort: vnU16("p.lport"), LocalAddress: vhAddr4("p.laddr"), RemotePort: vnU16("p.rport"), RemoteAddress: vhAddr4("p.raddr")}
	vassume(p.RemotePort != 0)
	net := &VHNet{}
	r := VHRoute(nic, net, vhNetP, p.LocalAddress, p.RemoteAddress, nil)
	delivered := d.deliverPacket(&r, vhTransP, buffer.View(vnBytes("payload", 2)).ToVectorisedView(), p)
	best, bestRank := -1, 0
	for i := 0; i < k; i++ {
		if eps[i] == nil {
			continue
		}
		if rk := vhRank(ids[i], p); rk > bestRank {
			best, bestRank = i, rk
		}
	}
	vassert(delivered == (best >= 0), "a packet is delivered iff some socket's binding matches its addresses and ports")
	for i := 0; i < k; i++ {
		if eps[i] == nil {
			continue
		}
		if i == best {
			vassert(eps[i].pkts == 1 && eps[i].lastI == p, "the most specific matching socket receives the packet exactly once")
		} else {
			vassert(eps[i].pkts == 0, "no other socket receives it")
		}
	}
	if best >= 0 {
		vreach("delivered")
	} else {
		vreach("nobody")
	}
}

// O3: unregister removes exactly that id; multi-protocol registration is all-or-nothing.
func vh_demux_register() {
	_, d := vhDemux()
	const net2 tcpip.NetworkProtocolNumber = 0x86dd
	d.protocol[protocolIDs{net2, vhTransP}] = &transportEndpoints{endpoints: make(map[TransportEndpointID]TransportEndpoint)}
	a, b := vhRegID("a"), vhRegID("b")
	ea, eb := &vhTEP{}, &vhTEP{}
	// b is taken on the second protocol only
	vassert(d.singleRegisterEndpoint(net2, vhTransP, b, eb) == nil, "pre-registration")
	err := d.registerEndpoint([]tcpip.NetworkProtocolNumber{vhNetP, net2}, vhTransP, a, ea)
	e1 := d.protocol[protocolIDs{vhNetP, vhTransP}].endpoints
	e2 := d.protocol[protocolIDs{net2, vhTransP}].endpoints
	if a == b {
		vassert(err == tcpip.ErrPortInUse, "a conflict on any protocol refuses the registration")
		vassert(len(e1) == 0 && len(e2) == 1 && e2[b] == TransportEndpoint(eb), "a partially applied multi-protocol registration is rolled back")
		vreach("rollback")
		return
	}
	vassert(err == nil && e1[a] == TransportEndpoint(ea) && e2[a] == TransportEndpoint(ea) && e2[b] == TransportEndpoint(eb), "registration adds the id on every protocol and leaves others alone")
	d.unregisterEndpoint([]tcpip.NetworkProtocolNumber{vhNetP, net2}, vhTransP, a)
	vassert(len(e1) == 0 && len(e2) == 1 && e2[b] == TransportEndpoint(eb), "unregistering removes exactly that id")
	vreach("unregistered")
}

// ---------- network-layer admission (NIC) ----------

type vhNetEP struct {
	VHNet
	handled int
}

func (e *vhNetEP) HandlePacket(r *Route, vv buffer.VectorisedView) { e.handled++ }

type vhNetProto struct{ eps []*vhNetEP }

func (p *vhNetProto) Number() tcpip.NetworkProtocolNumber { return vhNetP }
func (p *vhNetProto) MinimumPacketSize() int              { return 8 }
func (p *vhNetProto) ParseAddresses(v buffer.View) (src, dst tcpip.Address) {
	return tcpip.Address(v[0:4]), tcpip.Address(v[4:8])
}
func (p *vhNetProto) NewEndpoint(nicid tcpip.NICID, addr tcpip.Address, lc LinkAddressCache, d TransportDispatcher, l LinkEndpoint) (NetworkEndpoint, *tcpip.Error) {
	e := &vhNetEP{}
	e.Id = NetworkEndpointID{addr}
	e.Nic = nicid
	p.eps = append(p.eps, e)
	return e, nil
}
func (p *vhNetProto) SetOption(interface{}) *tcpip.Error { return nil }
func (p *vhNetProto) Option(interface{}) *tcpip.Error    { return nil }

// O4: an inbound packet is processed only if its destination is assigned to the NIC, or the
// NIC is promiscuous, or one of its subnets contains the destination.
func vh_nic_admission() {
	s := VHStack()
	np := &vhNetProto{}
	VHAddProtocols(s, []NetworkProtocol{np}, nil)
	link := &VHLink{Mtu: 1500}
	nic := VHNIC(s, 1, link)
	na := vnChoice("naddrs", 3)
	addrs := make([]tcpip.Address, na)
	for i := range addrs {
		addrs[i] = vhAddr4("addr")
		for j := 0; j < i; j++ {
			vassume(addrs[j] != addrs[i])
		}
		vassert(nic.AddAddress(vhNetP, addrs[i]) == nil, "address added")
	}
	// the first address may be in the middle of being removed: its reference count already
	// dropped to zero while the entry is still in the table
	dying := na > 0 && vnBool("dying")
	if dying {
		// (RemoveAddress clears holdsInsertRef under the lock before it drops its reference)
		nic.endpoints[NetworkEndpointID{addrs[0]}].holdsInsertRef = false
		nic.endpoints[NetworkEndpointID{addrs[0]}].refs = 0
	}
	nic.promiscuous = vnBool("promiscuous")
	hasSubnet := vnBool("subnet")
	var sn tcpip.Subnet
	if hasSubnet {
		a, m := vnString("snaddr", 4), vnString("snmask", 4)
		var err error
		sn, err = tcpip.NewSubnet(tcpip.Address(a), tcpip.AddressMask(m))
		vassume(err == nil)
		nic.subnets = append(nic.subnets, sn)
	}
	n := 8 + vnChoice("extra", 2)
	if vnBool("short") {
		n = vnChoice("shortlen", 8)
	}
	pkt := vnBytes("pkt", n)
	before := len(np.eps)
	nic.DeliverNetworkPacket(link, "", "", vhNetP, buffer.View(pkt).ToVectorisedView())
	total := 0
	for _, e := range np.eps {
		total += e.handled
	}
	if n < 8 {
		vassert(total == 0 && len(np.eps) == before, "a packet shorter than the network header is dropped")
		vreach("short")
		return
	}
	dst := tcpip.Address(pkt[4:8])
	own := false
	for i, a := range addrs {
		if a == dst && !(dying && i == 0) {
			own = true
		}
	}
	inSubnet := false
	if hasSubnet {
		// bitwise definition of subnet membership
		id, mask := sn.ID(), sn.Mask()
		inSubnet = true
		for i := 0; i < 4; i++ {
			if dst[i]&mask[i] != id[i] {
				inSubnet = false
			}
		}
		vassert(sn.Contains(dst) == inSubnet, "Subnet.Contains is the bitwise prefix match")
	}
	want := own || nic.promiscuous || inSubnet
	vassert((total == 1) == want && total <= 1, "a packet is processed iff its destination is assigned to the interface, or the interface is promiscuous or owns the subnet; and at most once")
	if total == 1 {
		for _, e := range np.eps {
			if e.handled == 1 {
				vassert(e.Id.LocalAddress == dst, "it is processed by the endpoint of exactly the destination address")
				if dying && dst == addrs[0] {
					vassert(e != np.eps[0], "an address whose removal is in progress is not served by its dying endpoint")
				}
			}
		}
		vreach("accepted")
	} else {
		vreach("rejected")
	}
	vassert(nic.mu.TryLock(), "the NIC lock is released")
}

// ---------- transport dispatch order ----------

type vhTransProto struct {
	unknown  int
	handleOK bool
	minSize  int
}

func (p *vhTransProto) Number() tcpip.TransportProtocolNumber { return vhTransP }
func (p *vhTransProto) NewEndpoint(stack *Stack, netProto tcpip.NetworkProtocolNumber, wq *waiter.Queue) (tcpip.Endpoint, *tcpip.Error) {
	return nil, tcpip.ErrNotSupported
}
func (p *vhTransProto) MinimumPacketSize() int { return p.minSize }
func (p *vhTransProto) ParsePorts(v buffer.View) (src, dst uint16, err *tcpip.Error) {
	return uint16(v[0])<<8 | uint16(v[1]), uint16(v[2])<<8 | uint16(v[3]), nil
}
func (p *vhTransProto) HandleUnknownDestinationPacket(r *Route, id TransportEndpointID, vv buffer.VectorisedView) bool {
	p.unknown++
	return p.handleOK
}
func (p *vhTransProto) SetOption(interface{}) *tcpip.Error { return nil }
func (p *vhTransProto) Option(interface{}) *tcpip.Error    { return nil }

func vh_transport_dispatch() {
	s := VHStack()
	tp := &vhTransProto{handleOK: true, minSize: 4}
	VHAddProtocols(s, []NetworkProtocol{&vhNetProto{}}, []TransportProtocol{tp})
	link := &VHLink{Mtu: 1500}
	nic := VHNIC(s, 1, link)
	local, remote := vhAddr4("local"), vhAddr4("remote")
	net := &VHNet{}
	r := VHRoute(nic, net, vhNetP, local, remote, nil)
	nicEP, stackEP := &vhTEP{}, &vhTEP{}
	lport := vnU16("lport")
	lid := TransportEndpointID{LocalPort: lport}
	onNIC, onStack := vnBool("onNIC"), vnBool("onStack")
	if onNIC {
		vassert(nic.demux.registerEndpoint([]tcpip.NetworkProtocolNumber{vhNetP}, vhTransP, lid, nicEP) == nil, "nic registration")
	}
	if onStack {
		vassert(s.demux.registerEndpoint([]tcpip.NetworkProtocolNumber{vhNetP}, vhTransP, lid, stackEP) == nil, "stack registration")
	}
	defHandled := 0
	hasDefault := vnBool("default")
	if hasDefault {
		s.transportProtocols[vhTransP].defaultHandler = func(r *Route, id TransportEndpointID, vv buffer.VectorisedView) bool {
			defHandled++
			return true
		}
	}
	n := vnChoice("len", 7)
	pkt := vnBytes("seg", n)
	// the segment arrives in one view or split into two (reassembled fragments, large frames):
	// the transport header must be complete in the FIRST view, which is what the protocols parse
	first := n
	vv := buffer.View(pkt).ToVectorisedView()
	if sp := vnChoice("split", 7); sp > 0 && sp < n {
		first = sp
		vv = buffer.NewVectorisedView(n, []buffer.View{buffer.View(pkt[:sp]), buffer.View(pkt[sp:])})
		vreach("split")
	}
	nic.DeliverTransportPacket(&r, vhTransP, vv)
	if first < 4 {
		vassert(nicEP.pkts+stackEP.pkts+defHandled+tp.unknown == 0, "a transport header that is too short is dropped before the ports are parsed")
		vreach("short")
		return
	}
	dport := uint16(pkt[2])<<8 | uint16(pkt[3])
	match := dport == lport
	switch {
	case match && onNIC:
		vassert(nicEP.pkts == 1 && stackEP.pkts == 0 && defHandled == 0 && tp.unknown == 0, "a socket bound on the interface gets the packet and nothing else does")
		vreach("nic")
	case match && onStack:
		vassert(nicEP.pkts == 0 && stackEP.pkts == 1 && defHandled == 0 && tp.unknown == 0, "otherwise a stack-wide socket gets it and nothing else does")
		vreach("stack")
	case hasDefault:
		vassert(nicEP.pkts == 0 && stackEP.pkts == 0 && defHandled == 1 && tp.unknown == 0, "with no matching socket the default handler is tried")
		vreach("default")
	default:
		vassert(nicEP.pkts == 0 && stackEP.pkts == 0 && defHandled == 0 && tp.unknown == 1, "with no socket nothing is delivered anywhere; the protocol's unknown-destination handling runs once")
		vreach("unknown")
	}
}

// Two interfaces, forwarding off: a packet arriving on interface 1 for an address that only
// interface 2 has is not processed by anybody (this stack is a strong-end-system host unless
// forwarding is enabled).
func vh_nic_other_interface() {
	s := VHStack()
	np := &vhNetProto{}
	VHAddProtocols(s, []NetworkProtocol{np}, nil)
	l1, l2 := &VHLink{Mtu: 1500}, &VHLink{Mtu: 1500}
	n1 := VHNIC(s, 1, l1)
	n2 := VHNIC(s, 2, l2)
	a1, a2 := vhAddr4("addr1"), vhAddr4("addr2")
	vassume(a1 != a2)
	vassert(n1.AddAddress(vhNetP, a1) == nil && n2.AddAddress(vhNetP, a2) == nil, "addresses added")
	s.routeTable = []tcpip.Route{{Destination: "\x00\x00\x00\x00", Mask: "\x00\x00\x00\x00", NIC: 2}, {Destination: "\x00\x00\x00\x00", Mask: "\x00\x00\x00\x00", NIC: 1}}
	pkt := vnBytes("pkt", 8)
	dst := tcpip.Address(pkt[4:8])
	n1.DeliverNetworkPacket(l1, "", "", vhNetP, buffer.View(pkt).ToVectorisedView())
	total := 0
	for _, e := range np.eps {
		total += e.handled
	}
	if dst == a1 {
		vassert(total == 1, "a packet for the interface's own address is processed once")
		vreach("own")
	} else {
		vassert(total == 0 && len(l1.Sent)+len(l2.Sent) == 0, "with forwarding off a packet for another interface's address (or for nobody) is neither processed nor forwarded")
		if dst == a2 {
			vreach("other-interface")
		}
	}
}

// ICMP-style error reports quote the packet that this host SENT: the socket to notify is the
// one whose local port is the quoted source port and whose remote port is the quoted
// destination port.
func vh_control_dispatch() {
	s := VHStack()
	tp := &vhTransProto{handleOK: true, minSize: 4}
	VHAddProtocols(s, []NetworkProtocol{&vhNetProto{}}, []TransportProtocol{tp})
	nic := VHNIC(s, 1, &VHLink{Mtu: 1500})
	local, remote := vhAddr4("local"), vhAddr4("remote")
	lport, rport := vnU16("lport"), vnU16("rport")
	vassume(lport != rport)
	epA, epB := &vhTEP{}, &vhTEP{}
	idA := TransportEndpointID{LocalPort: lport, LocalAddress: local, RemotePort: rport, RemoteAddress: remote}
	idB := TransportEndpointID{LocalPort: rport, LocalAddress: local, RemotePort: lport, RemoteAddress: remote} // the mirrored connection
	vassert(nic.demux.registerEndpoint([]tcpip.NetworkProtocolNumber{vhNetP}, vhTransP, idA, epA) == nil, "A registered")
	vassert(nic.demux.registerEndpoint([]tcpip.NetworkProtocolNumber{vhNetP}, vhTransP, idB, epB) == nil, "B registered")
	// the quoted transport header of a packet sent by A: source port = A's local port
	q := make([]byte, 8)
	q[0], q[1] = byte(lport>>8), byte(lport)
	q[2], q[3] = byte(rport>>8), byte(rport)
	nic.DeliverTransportControlPacket(local, remote, vhNetP, vhTransP, ControlPacketTooBig, 1400, buffer.View(q).ToVectorisedView())
	vassert(epA.ctrl == 1 && epB.ctrl == 0, "an error report reaches exactly the socket that sent the quoted packet")
	vreach("control")
}

// C09 / C13: an interface stops accepting packets for a subnet once the subnet has been
// removed ("currently assigned"), whichever position it had in the list, and keeps
// accepting the subnets that remain.
func vh_subnet_removed() {
	s := VHStack()
	np := &vhNetProto{}
	VHAddProtocols(s, []NetworkProtocol{np}, nil)
	link := &VHLink{Mtu: 1500}
	nic := VHNIC(s, 1, link)
	// 1-3 disjoint /24 subnets 10.<i+1>.0.0
	ns := 1 + vnChoice("nsubnets", 3)
	sns := make([]tcpip.Subnet, ns)
	for i := range sns {
		sn, err := tcpip.NewSubnet(tcpip.Address([]byte{10, byte(i + 1), 0, 0}), tcpip.AddressMask("\xff\xff\xff\x00"))
		vassume(err == nil)
		sns[i] = sn
		nic.AddSubnet(vhNetP, sn)
	}
	rm := vnChoice("remove", ns)
	nic.RemoveSubnet(sns[rm])
	vassert(!vhHasSubnet(nic, sns[rm]), "a removed subnet is no longer listed")
	host := vnU8("host")
	for i := range sns {
		dst := tcpip.Address([]byte{10, byte(i + 1), 0, host})
		ref := nic.getRef(vhNetP, dst)
		if i == rm {
			vassert(ref == nil, "a packet for an address of a removed subnet is not processed")
		} else {
			vassert(ref != nil, "removing one subnet does not affect another")
			vassert(vhHasSubnet(nic, sns[i]), "the remaining subnets are still listed")
		}
	}
	vreach("removed")
}

func vhHasSubnet(n *NIC, sn tcpip.Subnet) bool {
	for _, x := range n.subnets {
		if x == sn {
			return true
		}
	}
	return false
}
