package stack

import (
	"github.com/brewlin/net-protocol/pkg/buffer"
	"github.com/brewlin/net-protocol/pkg/sleep"
	tcpip "github.com/brewlin/net-protocol/protocol"
	"github.com/brewlin/net-protocol/protocol/ports"
)

// Scaffolding shared by the harnesses of other packages: a Stack/NIC/Route built from
// struct literals (no stack.New: that goes through init-time factories and reflection) and
// capture endpoints that record what they are asked to send or deliver.

// VHFrame is one packet handed to a capture link endpoint.
type VHFrame struct {
	Hdr        []byte // link-independent headers (network + transport), copied
	Payload    []byte // flattened payload, copied
	Views      int    // number of payload views
	Proto      tcpip.NetworkProtocolNumber
	RemoteLink tcpip.LinkAddress
	LocalLink  tcpip.LinkAddress
	Local      tcpip.Address
	Remote     tcpip.Address
}

// VHLink is a capture LinkEndpoint.
type VHLink struct {
	Mtu       uint32
	Caps      LinkEndpointCapabilities
	HdrLen    uint16
	Addr      tcpip.LinkAddress
	Err       *tcpip.Error
	FailFirst int // the first FailFirst writes fail with ErrWouldBlock (transient link error)
	Sent      []VHFrame
	Disp      NetworkDispatcher
}

func (l *VHLink) MTU() uint32                            { return l.Mtu }
func (l *VHLink) Capabilities() LinkEndpointCapabilities { return l.Caps }
func (l *VHLink) MaxHeaderLength() uint16                { return l.HdrLen }
func (l *VHLink) LinkAddress() tcpip.LinkAddress         { return l.Addr }
func (l *VHLink) Attach(d NetworkDispatcher)             { l.Disp = d }
func (l *VHLink) IsAttached() bool                       { return l.Disp != nil }
func (l *VHLink) WritePacket(r *Route, hdr buffer.Prependable, payload buffer.VectorisedView, proto tcpip.NetworkProtocolNumber) *tcpip.Error {
	h := append([]byte{}, hdr.View()...)
	p := append([]byte{}, payload.ToView()...)
	l.Sent = append(l.Sent, VHFrame{Hdr: h, Payload: p, Views: len(payload.Views()), Proto: proto,
		RemoteLink: r.RemoteLinkAddress, LocalLink: r.LocalLinkAddress, Local: r.LocalAddress, Remote: r.RemoteAddress})
	if l.FailFirst > 0 {
		l.FailFirst--
		return tcpip.ErrWouldBlock
	}
	return l.Err
}

// VHPacket is one packet handed to a capture network endpoint by a transport protocol.
type VHPacket struct {
	Hdr     []byte
	Payload []byte
	Views   int
	Proto   tcpip.TransportProtocolNumber
	TTL     uint8
	Local   tcpip.Address
	Remote  tcpip.Address
}

// VHNet is a capture NetworkEndpoint.
type VHNet struct {
	Id     NetworkEndpointID
	Nic    tcpip.NICID
	Mtu    uint32
	Caps   LinkEndpointCapabilities
	HdrLen uint16
	Ttl    uint8
	Err    *tcpip.Error
	Sent   []VHPacket
}

func (e *VHNet) DefaultTTL() uint8                               { return e.Ttl }
func (e *VHNet) MTU() uint32                                     { return e.Mtu }
func (e *VHNet) Capabilities() LinkEndpointCapabilities          { return e.Caps }
func (e *VHNet) MaxHeaderLength() uint16                         { return e.HdrLen }
func (e *VHNet) ID() *NetworkEndpointID                          { return &e.Id }
func (e *VHNet) NICID() tcpip.NICID                              { return e.Nic }
func (e *VHNet) HandlePacket(r *Route, vv buffer.VectorisedView) {}
func (e *VHNet) Close()                                          {}
func (e *VHNet) WritePacket(r *Route, hdr buffer.Prependable, payload buffer.VectorisedView, proto tcpip.TransportProtocolNumber, ttl uint8) *tcpip.Error {
	h := append([]byte{}, hdr.View()...)
	p := append([]byte{}, payload.ToView()...)
	e.Sent = append(e.Sent, VHPacket{Hdr: h, Payload: p, Views: len(payload.Views()), Proto: proto, TTL: ttl, Local: r.LocalAddress, Remote: r.RemoteAddress})
	return e.Err
}

// VHDelivered is one packet handed to a capture transport dispatcher.
type VHDelivered struct {
	Proto   tcpip.TransportProtocolNumber
	Payload []byte
	Local   tcpip.Address
	Remote  tcpip.Address
}

type VHControl struct {
	Local, Remote tcpip.Address
	Net           tcpip.NetworkProtocolNumber
	Trans         tcpip.TransportProtocolNumber
	Typ           ControlType
	Extra         uint32
	Payload       []byte
}

// VHDisp is a capture TransportDispatcher.
type VHDisp struct {
	Pkts []VHDelivered
	Ctrl []VHControl
}

func (d *VHDisp) DeliverTransportPacket(r *Route, protocol tcpip.TransportProtocolNumber, vv buffer.VectorisedView) {
	d.Pkts = append(d.Pkts, VHDelivered{Proto: protocol, Payload: append([]byte{}, vv.ToView()...), Local: r.LocalAddress, Remote: r.RemoteAddress})
}
func (d *VHDisp) DeliverTransportControlPacket(local, remote tcpip.Address, net tcpip.NetworkProtocolNumber, trans tcpip.TransportProtocolNumber, typ ControlType, extra uint32, vv buffer.VectorisedView) {
	d.Ctrl = append(d.Ctrl, VHControl{local, remote, net, trans, typ, extra, append([]byte{}, vv.ToView()...)})
}

// VHStack builds an empty stack (no protocols registered unless added by the caller).
func VHStack() *Stack {
	s := &Stack{
		transportProtocols: make(map[tcpip.TransportProtocolNumber]*transportProtocolState),
		networkProtocols:   make(map[tcpip.NetworkProtocolNumber]NetworkProtocol),
		linkAddrResolvers:  make(map[tcpip.NetworkProtocolNumber]LinkAddressResolver),
		nics:               make(map[tcpip.NICID]*NIC),
		PortManager:        ports.NewPortManager(),
		clock:              &tcpip.StdClock{},
	}
	if !vsymbolic() {
		s.stats = s.stats.FillIn() // the executor stubs StatCounter.Increment instead
	}
	return s
}

// VHAddProtocols registers protocol instances and rebuilds the demuxers.
func VHAddProtocols(s *Stack, nets []NetworkProtocol, trans []TransportProtocol) {
	for _, n := range nets {
		s.networkProtocols[n.Number()] = n
		if r, ok := n.(LinkAddressResolver); ok {
			s.linkAddrResolvers[r.LinkAddressProtocol()] = r
		}
	}
	for _, t := range trans {
		s.transportProtocols[t.Number()] = &transportProtocolState{proto: t}
	}
	s.demux = newTransportDemuxer(s)
}

func VHNIC(s *Stack, id tcpip.NICID, linkEP LinkEndpoint) *NIC {
	n := newNIC(s, id, "vh", linkEP)
	s.nics[id] = n
	return n
}

// VHRoute builds a Route whose reference points at ep on nic.
func VHRoute(nic *NIC, ep NetworkEndpoint, netProto tcpip.NetworkProtocolNumber, local, remote tcpip.Address, lc LinkAddressCache) Route {
	ref := &referencedNetworkEndpoint{refs: 1, ep: ep, nic: nic, protocol: netProto, linkCache: lc}
	return makeRoute(netProto, local, remote, nic.linkEP.LinkAddress(), ref)
}

// VHLinkAdd is one AddLinkAddress call seen by a capture link-address cache.
type VHLinkAdd struct {
	Nic  tcpip.NICID
	Addr tcpip.Address
	Link tcpip.LinkAddress
}

// VHLinkCache is a capture LinkAddressCache: Own decides CheckLocalAddress, Link/Err is the
// answer of GetLinkAddress.
type VHLinkCache struct {
	Own    func(tcpip.Address) bool
	Added  []VHLinkAdd
	Link   tcpip.LinkAddress
	Err    *tcpip.Error
	Asked  []tcpip.Address
	Wakers int
}

func (c *VHLinkCache) CheckLocalAddress(nicid tcpip.NICID, protocol tcpip.NetworkProtocolNumber, addr tcpip.Address) tcpip.NICID {
	if c.Own != nil && c.Own(addr) {
		return 1
	}
	return 0
}
func (c *VHLinkCache) AddLinkAddress(nicid tcpip.NICID, addr tcpip.Address, linkAddr tcpip.LinkAddress) {
	c.Added = append(c.Added, VHLinkAdd{nicid, addr, linkAddr})
}
func (c *VHLinkCache) GetLinkAddress(nicid tcpip.NICID, addr, localAddr tcpip.Address, protocol tcpip.NetworkProtocolNumber, w *sleep.Waker) (tcpip.LinkAddress, <-chan struct{}, *tcpip.Error) {
	c.Asked = append(c.Asked, addr)
	return c.Link, nil, c.Err
}
func (c *VHLinkCache) RemoveWaker(nicid tcpip.NICID, addr tcpip.Address, waker *sleep.Waker) {
	c.Wakers++
}

// VHProtoV4 is a capture network protocol registered under the IPv4 number: every endpoint
// it creates is the shared capture endpoint EP (so packets routed by Stack.FindRoute land in
// EP.Sent).
type VHProtoV4 struct{ EP *VHNet }

func (p *VHProtoV4) Number() tcpip.NetworkProtocolNumber { return 0x0800 }
func (p *VHProtoV4) MinimumPacketSize() int              { return 20 }
func (p *VHProtoV4) ParseAddresses(v buffer.View) (src, dst tcpip.Address) {
	return tcpip.Address(v[12:16]), tcpip.Address(v[16:20])
}
func (p *VHProtoV4) NewEndpoint(nicid tcpip.NICID, addr tcpip.Address, lc LinkAddressCache, d TransportDispatcher, l LinkEndpoint) (NetworkEndpoint, *tcpip.Error) {
	p.EP.Id = NetworkEndpointID{addr}
	p.EP.Nic = nicid
	return p.EP, nil
}
func (p *VHProtoV4) SetOption(interface{}) *tcpip.Error { return nil }
func (p *VHProtoV4) Option(interface{}) *tcpip.Error    { return nil }

// VHDefaultRoute installs a single default route through the given interface.
func VHDefaultRoute(s *Stack, nic tcpip.NICID) {
	s.routeTable = []tcpip.Route{{Destination: "\x00\x00\x00\x00", Mask: "\x00\x00\x00\x00", NIC: nic}}
}
