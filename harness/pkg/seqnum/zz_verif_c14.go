package seqnum

// C14: sequence-space arithmetic against definitions written in 64-bit arithmetic.

func vhDist(v, w Value) uint64 { return (uint64(w) + (1 << 32) - uint64(v)) & 0xffffffff }

// LessThan(v,w) <=> 1 <= (w-v mod 2^32) <= 2^31-1
func vh_lessthan() {
	v, w := Value(vnU32("v")), Value(vnU32("w"))
	d := vhDist(v, w)
	want := d >= 1 && d <= (1<<31)-1
	got := v.LessThan(w)
	vassertKnown(got == want, "LessThan(v,w) iff forward distance in [1,2^31-1]", "D8-lessthan-half", d == 1<<31)
	vreach("lessthan")
}

func vh_lessthaneq() {
	v, w := Value(vnU32("v")), Value(vnU32("w"))
	d := vhDist(v, w)
	want := d <= (1<<31)-1
	vassertKnown(v.LessThanEq(w) == want, "LessThanEq(v,w) iff forward distance in [0,2^31-1]", "D8-lessthan-half", d == 1<<31)
	vreach("lessthaneq")
}

// InRange(v,a,b) <=> dist(a,v) < dist(a,b)
func vh_inrange() {
	v, a, b := Value(vnU32("v")), Value(vnU32("a")), Value(vnU32("b"))
	want := vhDist(a, v) < vhDist(a, b)
	vassert(v.InRange(a, b) == want, "InRange(v,a,b) iff dist(a,v) < dist(a,b)")
	vreach("inrange")
}

func vh_inwindow() {
	v, f := Value(vnU32("v")), Value(vnU32("first"))
	sz := Size(vnU32("size"))
	want := vhDist(f, v) < uint64(sz)
	vassert(v.InWindow(f, sz) == want, "InWindow(v,first,size) iff dist(first,v) < size")
	vreach("inwindow")
}

// Overlap(a,b,x,y) <=> the windows [a,a+b) and [x,x+y) share a sequence number
// (quantifier-free form: (b!=0 && dist(x,a) < y) || (y!=0 && dist(a,x) < b)).
func vh_overlap() {
	a, x := Value(vnU32("a")), Value(vnU32("x"))
	b, y := Size(vnU32("b")), Size(vnU32("y"))
	want := (b != 0 && vhDist(x, a) < uint64(y)) || (y != 0 && vhDist(a, x) < uint64(b))
	got := Overlap(a, b, x, y)
	// TCP-reachable domain: non-empty windows whose sizes sum to at most 2^31
	dom := b != 0 && y != 0 && uint64(b)+uint64(y) <= 1<<31
	vassertKnown(got == want, "Overlap iff the windows share a sequence number", "D8-overlap-domain", !dom)
	vreach("overlap")
}

// the quantifier elimination used above, checked with a Skolem witness both ways
func vh_overlap_qe() {
	a, x := Value(vnU32("a")), Value(vnU32("x"))
	b, y := Size(vnU32("b")), Size(vnU32("y"))
	k := Value(vnU32("k"))
	qf := (b != 0 && vhDist(x, a) < uint64(y)) || (y != 0 && vhDist(a, x) < uint64(b))
	inBoth := vhDist(a, k) < uint64(b) && vhDist(x, k) < uint64(y)
	// (exists k. inBoth) => qf
	vassert(!inBoth || qf, "a shared sequence number implies the quantifier-free overlap condition")
	// qf => witness: a or x itself is shared
	wa := vhDist(a, a) < uint64(b) && vhDist(x, a) < uint64(y)
	wx := vhDist(a, x) < uint64(b) && vhDist(x, x) < uint64(y)
	vassert(!qf || wa || wx, "the quantifier-free overlap condition has a witness (a or x)")
	vreach("qe")
}

func vh_add_size() {
	v, w := Value(vnU32("v")), Value(vnU32("w"))
	s := Size(vnU32("s"))
	vassert(uint64(v.Add(s)) == (uint64(v)+uint64(s))&0xffffffff, "Add is addition mod 2^32")
	vassert(uint64(v.Size(w)) == vhDist(v, w), "Size is forward distance")
	vassert(v.Add(v.Size(w)) == w, "v.Add(v.Size(w)) == w")
	vassert(v.Size(v.Add(s)) == s, "v.Size(v.Add(s)) == s")
	u := v
	u.UpdateForward(s)
	vassert(u == v.Add(s), "UpdateForward adds")
	vreach("addsize")
}

// order laws inside half the space
func vh_order() {
	u, v, w := Value(vnU32("u")), Value(vnU32("v")), Value(vnU32("w"))
	vassert(!v.LessThan(v), "irreflexive")
	if vhDist(u, v) != 1<<31 {
		vassert(!(u.LessThan(v) && v.LessThan(u)), "asymmetric (distance != 2^31)")
		vassert(u == v || u.LessThan(v) || v.LessThan(u), "total (distance != 2^31)")
	}
	// transitive when the three points span less than 2^31
	if vhDist(u, v) < 1<<30 && vhDist(v, w) < 1<<30 {
		vassert(!(u.LessThan(v) && v.LessThan(w)) || u.LessThan(w), "transitive within a half-space")
	}
	vreach("order")
}
