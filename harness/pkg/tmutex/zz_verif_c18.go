package tmutex

import "sync/atomic"

// ---------- C18: try-lock mutex ----------
//
// Interleaving obligations: N threads each run `rounds` rounds of either Lock;cs;Unlock or
// if TryLock {cs;Unlock} (the choice is a symbolic per-thread bit vector). The critical
// section is bracketed by two atomic operations on a ghost counter so that it is a visible
// step of its own.

type vhShared struct {
	m    Mutex
	inCS int32
}

func vh_tm_setup() *vhShared {
	s := &vhShared{}
	s.m.Init()
	return s
}

func vh_tm_thread(s *vhShared, tid int, choice int) {
	rounds := vparam("rounds", 1)
	for r := 0; r < rounds; r++ {
		if (choice>>uint(r))&1 == 0 {
			s.m.Lock()
			atomic.AddInt32(&s.inCS, 1)
			atomic.AddInt32(&s.inCS, -1)
			s.m.Unlock()
		} else if s.m.TryLock() {
			atomic.AddInt32(&s.inCS, 1)
			atomic.AddInt32(&s.inCS, -1)
			s.m.Unlock()
		}
	}
}

// mutual exclusion: never two threads inside the critical section
func vh_tm_safe(s *vhShared) bool { return s.inCS <= 1 }

// at the end the mutex is free again
func vh_tm_final(s *vhShared) bool { return vand(s.m.v == 1, s.inCS == 0) }

// TryLock alone: never blocks (no channel operation on its path), succeeds exactly by the
// 1 -> 0 transition, and succeeds on a free mutex when nobody else is contending.
func vh_trylock_seq() {
	var m Mutex
	m.Init()
	v := int32(vnU32("v"))
	vassume(v <= 1) // reachable values: 1 free, 0 held, negative held with waiters
	m.v = v
	got := m.TryLock()
	vassert(got == (v == 1), "TryLock succeeds iff the mutex is free")
	if got {
		vassert(m.v == 0, "a successful TryLock acquires the mutex (1 -> 0)")
		vreach("acquired")
	} else {
		vassert(m.v == v, "a failed TryLock changes nothing")
		vreach("refused")
	}
	vassert(len(m.ch) == 0, "TryLock performs no channel operation (it cannot block)")
}

// Lock/Unlock alone
func vh_lock_seq() {
	var m Mutex
	m.Init()
	m.Lock()
	vassert(m.v == 0, "Lock on a free mutex acquires it")
	vassert(!m.TryLock(), "a held mutex refuses TryLock")
	m.Unlock()
	vassert(m.v == 1 && len(m.ch) == 0, "Unlock without waiters frees the mutex and leaves no stray wake-up token")
	vreach("seq")
}
