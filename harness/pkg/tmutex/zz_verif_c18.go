package tmutex

import "sync/atomic"

// ---------- C18: try-lock mutex ----------
//
// Interleaving obligations: N threads each run `rounds` rounds of either Lock;cs;Unlock or
// if TryLock {cs;Unlock} (the choice is a symbolic per-thread bit vector). The critical
// section is bracketed by two atomic operations on a ghost counter so that it is a visible
// step of its own.

type vhShared struct {
	m        Mutex
	inCS     int32
	finished int32 // ghost: threads that have completed all their rounds
	bad      int32 // ghost: an obligation checked inside a thread failed
}

func vh_tm_setup() *vhShared {
	s := &vhShared{}
	s.m.Init()
	return s
}

// one thread: `rounds` rounds of Lock;cs;Unlock (choice bit 0) or TryLock?{cs;Unlock} (bit 1)
func vh_tm_run(s *vhShared, rounds int, choice int) {
	for r := 0; r < rounds; r++ {
		if (choice>>uint(r))&1 == 0 {
			s.m.Lock()
			s.inCS++                     // ghost, same step as the acquiring operation
			atomic.AddInt32(&s.inCS, -1) // the critical section is a step of its own
			s.m.Unlock()
		} else {
			// "succeeds whenever the mutex is free and nobody else is contending": once every
			// other thread has finished (a stable fact) the mutex is free, so TryLock must succeed
			// (read by an atomic load so that it is a scheduler step of its own, taken right before TryLock)
			alone := atomic.LoadInt32(&s.finished) == int32(vparam("threads", 2)-1)
			if s.m.TryLock() {
				s.inCS++
				atomic.AddInt32(&s.inCS, -1)
				s.m.Unlock()
			} else if alone {
				s.bad = 1
			}
		}
	}
	s.finished++
}

func vh_tm_thread(s *vhShared, tid int, choice int)   { vh_tm_run(s, vparam("rounds", 1), choice) }
func vh_tm_thread_a(s *vhShared, tid int, choice int) { vh_tm_run(s, vparam("rounds_a", 2), choice) }
func vh_tm_thread_b(s *vhShared, tid int, choice int) { vh_tm_run(s, vparam("rounds_b", 1), choice) }

// mutual exclusion: never two threads inside the critical section; TryLock never fails alone
func vh_tm_safe(s *vhShared) bool { return vand(s.inCS <= 1, s.bad == 0) }

// at the end the mutex is free again
func vh_tm_final(s *vhShared) bool { return vand(s.m.v == 1, s.inCS == 0) }

// TryLock alone: never blocks (no channel operation on its path), succeeds exactly by the
// 1 -> 0 transition, and succeeds on a free mutex when nobody else is contending.
func vh_trylock_seq() {
	var m Mutex
	m.Init()
	v := int32(vnU32("v"))
	vassume(v <= 1) // reachable values: 1 free, 0 held, negative held with waiters
	m.v = v
	got := m.TryLock()
	vassert(got == (v == 1), "TryLock succeeds iff the mutex is free")
	if got {
		vassert(m.v == 0, "a successful TryLock acquires the mutex (1 -> 0)")
		vreach("acquired")
	} else {
		vassert(m.v == v, "a failed TryLock changes nothing")
		vreach("refused")
	}
	vassert(len(m.ch) == 0, "TryLock performs no channel operation (it cannot block)")
}

// Lock/Unlock alone
func vh_lock_seq() {
	var m Mutex
	m.Init()
	m.Lock()
	vassert(m.v == 0, "Lock on a free mutex acquires it")
	vassert(!m.TryLock(), "a held mutex refuses TryLock")
	m.Unlock()
	vassert(m.v == 1 && len(m.ch) == 0, "Unlock without waiters frees the mutex and leaves no stray wake-up token")
	vreach("seq")
}
