package buffer

// C16: views behave like the byte string they represent. One-step lemmas from an
// arbitrary chunking (abstraction function vhFlat, invariant size == sum of chunk lengths).

func vhVV(maxChunks, maxLen int) VectorisedView {
	n := vnChoice("nchunks", maxChunks+1)
	views := make([]View, n)
	size := 0
	for i := 0; i < n; i++ {
		l := vnChoice("chunklen", maxLen+1)
		// the backing array may extend past the chunk (bytes a cap must keep hidden)
		views[i] = View(vnBytes("chunk", l+vparam("slack", 0))[:l])
		size += l
	}
	return NewVectorisedView(size, views)
}

func vhFlat(vv VectorisedView) []byte {
	out := []byte{}
	for _, v := range vv.views {
		out = append(out, v...)
	}
	return out
}

func vhInv(vv VectorisedView) bool {
	s := 0
	for _, v := range vv.views {
		s += len(v)
	}
	return s == vv.size
}

// vhSame: branch-free byte-string equality of a and b[lo:hi].
func vhSame(a, b []byte) bool {
	if len(a) != len(b) {
		return false
	}
	var d byte
	for i := range a {
		d |= a[i] ^ b[i]
	}
	return d == 0
}

func vhBounds() (int, int) { return vparam("chunks", 3), vparam("chunklen", 3) }

func vh_vv_trimfront() {
	mc, ml := vhBounds()
	vv := vhVV(mc, ml)
	old := vhFlat(vv)
	n := vnInt("n")
	vassume(n >= -1 && n <= len(old)+2)
	vv.TrimFront(n)
	k := n
	if k < 0 {
		k = 0
	}
	if k > len(old) {
		k = len(old)
	}
	vassert(vhInv(vv), "TrimFront keeps size == sum of chunk lengths")
	vassert(vv.Size() == len(old)-k, "TrimFront(n) leaves size-n bytes")
	vassert(vhSame(vhFlat(vv), old[k:]), "TrimFront(n) yields the byte string without its first n bytes")
	vreach("trimfront")
}

func vh_vv_caplength() {
	mc, ml := vhBounds()
	vv := vhVV(mc, ml)
	old := vhFlat(vv)
	n := vnInt("n")
	vassume(n >= -1 && n <= len(old)+2)
	vv.CapLength(n)
	k := n
	if k < 0 {
		k = 0
	}
	if k > len(old) {
		k = len(old)
	}
	vassert(vhInv(vv), "CapLength keeps size == sum of chunk lengths")
	vassert(vv.Size() == k, "CapLength(n) leaves min(n,size) bytes")
	vassert(vhSame(vhFlat(vv), old[:k]), "CapLength(n) yields the first n bytes")
	if n > 0 && n <= len(old) {
		last := vv.views[len(vv.views)-1]
		vassert(cap(last) == len(last), "a capped vectorised view cannot be re-extended beyond the cap (last chunk has cap == len)")
		vreach("cap-sealed")
	}
	vreach("caplength")
}

func vh_vv_removefirst() {
	mc, ml := vhBounds()
	vv := vhVV(mc, ml)
	old := vhFlat(vv)
	first := 0
	if len(vv.views) > 0 {
		first = len(vv.views[0])
	}
	f := vv.First()
	vassert(len(f) == first && vhSame(f, old[:first]), "First returns the first chunk")
	vv.RemoveFirst()
	vassert(vhInv(vv), "RemoveFirst keeps the size invariant")
	vassert(vhSame(vhFlat(vv), old[first:]), "RemoveFirst drops exactly the first chunk's bytes")
	vreach("removefirst")
}

func vh_vv_toview() {
	mc, ml := vhBounds()
	vv := vhVV(mc, ml)
	old := vhFlat(vv)
	v := vv.ToView()
	vassert(vhSame(v, old), "ToView is the concatenation of the chunks")
	vassert(vv.Size() == len(old), "Size is the total length")
	vassert(len(vv.Views()) == len(vv.views), "Views returns the chunk list")
	// flattening is a copy: writing the result does not change the original
	if len(v) > 0 {
		v[0] ^= 0xff
		vassert(vhSame(vhFlat(vv), old), "ToView result does not alias the chunks")
	}
	vreach("toview")
}

// A clone is unaffected by later trimming or capping of the original.
func vh_vv_clone_indep() {
	mc, ml := vhBounds()
	vv := vhVV(mc, ml)
	old := vhFlat(vv)
	var buf []View
	switch vnChoice("buf", 3) {
	case 1:
		buf = make([]View, 1) // possibly too small
	case 2:
		buf = make([]View, mc+1) // large enough
	}
	c := vv.Clone(buf)
	vassert(vhInv(c) && vhSame(vhFlat(c), old), "Clone has the same bytes and size")
	n := vnInt("n")
	vassume(n >= -1 && n <= len(old)+2)
	switch vnChoice("op", 3) {
	case 0:
		vv.TrimFront(n)
	case 1:
		vv.CapLength(n)
	case 2:
		vv.RemoveFirst()
	}
	vassert(vhInv(c) && vhSame(vhFlat(c), old), "Clone is unaffected by trimming/capping the original")
	vreach("clone")
}

// and the original is unaffected by trimming/capping the clone
func vh_vv_clone_indep2() {
	mc, ml := vhBounds()
	vv := vhVV(mc, ml)
	old := vhFlat(vv)
	c := vv.Clone(nil)
	n := vnInt("n")
	vassume(n >= -1 && n <= len(old)+2)
	switch vnChoice("op", 3) {
	case 0:
		c.TrimFront(n)
	case 1:
		c.CapLength(n)
	case 2:
		c.RemoveFirst()
	}
	vassert(vhInv(vv) && vhSame(vhFlat(vv), old), "original is unaffected by trimming/capping its clone")
	vreach("clone2")
}

func vh_view_ops() {
	l := vnChoice("len", vparam("viewlen", 6)+1)
	extra := vnChoice("extra", 3) // bytes beyond the view in the same backing array
	back := vnBytes("b", l+extra)
	old := make([]byte, l)
	copy(old, back[:l])
	v := View(back[:l])
	n := vnInt("n")
	vassume(n >= 0 && n <= l) // documented domain
	switch vnChoice("op", 3) {
	case 0:
		v.TrimFront(n)
		vassert(vhSame(v, old[n:]), "View.TrimFront(n) drops the first n bytes")
	case 1:
		v.CapLength(n)
		vassert(vhSame(v, old[:n]), "View.CapLength(n) keeps the first n bytes")
		vassert(cap(v) == n, "a capped view cannot be re-extended (cap == n)")
	case 2:
		nb := v.NextBytes(n)
		vassert(vhSame(nb, old[:n]), "NextBytes(n) returns the first n bytes")
		vassert(vhSame(v, old[n:]), "NextBytes(n) consumes them")
	}
	vv := v.ToVectorisedView()
	vassert(vhInv(vv) && vhSame(vhFlat(vv), v), "ToVectorisedView wraps the view")
	vreach("viewops")
}

func vh_view_new() {
	n := vnChoice("n", 5)
	v := NewView(n)
	vassert(len(v) == n, "NewView(n) has length n")
	b := vnBytes("b", n)
	w := NewViewFromBytes(b)
	vassert(vhSame(w, b), "NewViewFromBytes copies the bytes")
	if n > 0 {
		b[0] ^= 1
		vassert(w[0] != b[0], "NewViewFromBytes does not alias its argument")
	}
	vreach("viewnew")
}

// Prependable: model = the used suffix as a byte string; Prepend(k) grows it at the front.
func vh_prependable() {
	size := vnChoice("size", vparam("prep", 6)+1)
	p := NewPrependable(size)
	vassert(p.UsedLength() == 0 && len(p.View()) == 0, "fresh Prependable is empty")
	k1 := vnInt("k1")
	vassume(k1 >= 0 && k1 <= size+1)
	b1 := p.Prepend(k1)
	if k1 > size {
		vassert(b1 == nil && p.UsedLength() == 0, "Prepend beyond capacity returns nil and changes nothing")
		vreach("prepend-overflow")
		return
	}
	vassert(len(b1) == k1 && cap(b1) == k1, "Prepend(k) returns exactly k bytes")
	d1 := vnBytes("d1", size)
	copy(b1, d1)
	vassert(p.UsedLength() == k1 && vhSame(p.View(), d1[:k1]), "after Prepend(k1)+fill the view is those bytes")
	k2 := vnInt("k2")
	vassume(k2 >= 0 && k2 <= size+1)
	b2 := p.Prepend(k2)
	if k2 > size-k1 {
		vassert(b2 == nil && p.UsedLength() == k1 && vhSame(p.View(), d1[:k1]), "failed Prepend leaves content unchanged")
		vreach("prepend-overflow2")
		return
	}
	d2 := vnBytes("d2", size)
	copy(b2, d2)
	want := append(append([]byte{}, d2[:k2]...), d1[:k1]...)
	vassert(p.UsedLength() == k1+k2 && vhSame(p.View(), want), "second Prepend goes in front of the first")
	vreach("prepend2")
}

func vh_prependable_fromview() {
	n := vnChoice("n", 5)
	b := vnBytes("b", n)
	p := NewPrependableFromView(View(b))
	vassert(p.UsedLength() == n && vhSame(p.View(), b), "NewPrependableFromView is entirely used")
	k := vnInt("k")
	vassume(k >= 1 && k <= n+1)
	vassert(p.Prepend(k) == nil && p.UsedLength() == n, "nothing can be prepended to a full Prependable")
	vassert(len(p.Prepend(0)) == 0, "Prepend(0) is empty")
	vreach("fromview")
}
