package sleep

import (
	"sync/atomic"
	"unsafe"
)

// ---------- C19: Sleeper / Waker ----------
//
// Interleaving obligations (DESIGN 4.3). One fetching goroutine owns the Sleeper; one or
// two other goroutines assert (and clear) wakers. The runtime's gopark/goready are given
// their contract as a model: gopark runs the commit function (the real commitSleep, Go
// body under build tag verif, every atomic of it a scheduler step); if it commits, the
// caller blocks until a goready for its g arrives. goready for anything but a committed
// sleeper is recorded as a fault (the real runtime would crash: "invented" wake-up).

const vhG = 0x1000 // the fetching goroutine's g

type vhWk struct {
	w Waker
	// ghost state (only read/written by harness code, between visible operations)
	inflight int32 // Assert calls started and not yet returned
	fresh    int32 // an Assert started since the waker was last returned/cleared (or was in flight then)
	gen      int32 // number of consumptions (returned by Fetch / cleared) so far
	uncons   int32 // an Assert ran from start to end with no consumption in between and none since
}

type vhSl struct {
	s       Sleeper
	k       [2]vhWk
	park    chan struct{}
	bad     int32 // ghost: set when an obligation is violated; the safety predicate is bad == 0
	doneRet int32 // ghost: Done has returned
	parked  int32 // ghost: the fetcher committed to sleep and has not been readied yet
}

var vhCur *vhSl

func vh_touch(p *Sleeper) {}

func vh_sl_setup() *vhSl {
	x := &vhSl{}
	x.park = make(chan struct{}, 1)
	vh_touch(&assertedSleeper)
	nw := vparam("wakers", 1)
	for i := 0; i < nw; i++ {
		x.s.AddWaker(&x.k[i].w, i)
	}
	vhCur = x
	return x
}

// model of runtime.gopark for the sleeper's use
func vh_gopark(unlockf func(uintptr, *uintptr) bool, wg *uintptr, reason string, traceEv byte, traceskip int) {
	if vhCur == nil {
		// sequential obligations: nobody else runs, so a sleeper that parks sleeps forever
		vassert(false, "a blocking fetch with a pending notification does not go to sleep")
		vassume(false)
	}
	if unlockf(vhG, wg) {
		vhCur.parked = 1
		<-vhCur.park
	}
}

// model of runtime.goready
func vh_goready(g uintptr, traceskip int) {
	x := vhCur
	if g != vhG || x.parked != 1 {
		x.bad |= 1 // goready of a goroutine that did not commit to sleep
		return
	}
	x.parked = 0
	x.park <- struct{}{}
}

func (k *vhWk) assert() {
	k.inflight++
	k.fresh = 1
	g0 := k.gen
	k.w.Assert()
	k.inflight--
	if k.gen == g0 {
		k.uncons = 1
	}
}

func (k *vhWk) consumed() {
	k.gen++
	k.uncons = 0
	if k.inflight > 0 {
		k.fresh = 1
	} else {
		k.fresh = 0
	}
}

func (k *vhWk) clear() {
	if k.w.Clear() {
		k.consumed()
	}
}

func (x *vhSl) anyUncons() int32 { return x.k[0].uncons | x.k[1].uncons }

// a returned identifier must belong to an attached waker asserted since it was last
// returned or cleared
func (x *vhSl) returned(id int) {
	nw := vparam("wakers", 1)
	if id < 0 || id >= nw {
		x.bad |= 2
		return
	}
	k := &x.k[0]
	if id == 1 {
		k = &x.k[1]
	}
	if k.fresh == 0 {
		x.bad |= 4 // invented or duplicated notification
	}
	k.consumed()
}

// Scenario "blocking": every asserter asserts its waker at least once and never clears, so
// the fetcher's `wakers` blocking fetches must all return (a fetcher that sleeps forever is
// the deadlock the model checker reports as a lost wake-up); then a non-blocking fetch.
func vh_sl_fetcher(x *vhSl, tid int, choice int) {
	nw := vparam("wakers", 1)
	for k := 0; k < nw; k++ {
		id, ok := x.s.Fetch(true)
		if !ok {
			x.bad |= 8 // a blocking fetch returns a waker
			return
		}
		x.returned(id)
	}
	vh_poll(x)
}

// one non-blocking fetch with its obligation: "nothing" only if no attached waker had a
// completed, unconsumed assertion when the call started
func vh_poll(x *vhSl) {
	u0, g0 := x.k[0].uncons, x.k[0].gen
	u1, g1 := x.k[1].uncons, x.k[1].gen
	// the ghost reads above must be ordered before the fetch: make them a step of their own
	atomic.AddInt32(&x.k[0].gen, 0)
	id, ok := x.s.Fetch(false)
	if ok {
		x.returned(id)
	} else if (u0 != 0 && x.k[0].gen == g0) || (u1 != 0 && x.k[1].gen == g1) {
		// a waker had a completed assertion when the call started and nobody consumed it
		// (no fetch returned it, no Clear cancelled it) until the call reported "nothing"
		x.bad |= 16
	}
}

// Scenario "polling": the fetcher only polls (asserters may clear, so nothing is guaranteed
// to be pending)
func vh_sl_poller(x *vhSl, tid int, choice int) {
	np := vparam("polls", 2)
	for k := 0; k < np; k++ {
		vh_poll(x)
	}
}

func vh_sl_asserter0(x *vhSl, tid int, choice int) { vh_asserter(x, &x.k[0], choice) }
func vh_sl_asserter1(x *vhSl, tid int, choice int) { vh_asserter(x, &x.k[1], choice) }

// smallest two-waker race: one blocking fetch against two goroutines asserting one waker each
func vh_sl_fetcher1(x *vhSl, tid int, choice int) {
	id, ok := x.s.Fetch(true)
	if !ok {
		x.bad |= 8
		return
	}
	x.returned(id)
}
func vh_sl_once0(x *vhSl, tid int, choice int) { x.k[0].assert() }
func vh_sl_once1(x *vhSl, tid int, choice int) { x.k[1].assert() }

// one goroutine asserting both wakers, in either order (choice bit 0)
func vh_sl_asserter01(x *vhSl, tid int, choice int) {
	if choice&1 == 0 {
		x.k[0].assert()
		x.k[1].assert()
	} else {
		x.k[1].assert()
		x.k[0].assert()
	}
}

// choice bit 0: assert a second time; bit 1 (only with param clears=1): clear afterwards
func vh_asserter(x *vhSl, k *vhWk, choice int) {
	k.assert()
	if choice&1 != 0 {
		k.assert()
	}
	if vparam("clears", 0) == 1 && choice&2 != 0 {
		k.clear()
	}
}

func vh_sl_safe(x *vhSl) bool { return x.bad == 0 }

// Scenario "done": the owner calls Done while another goroutine asserts the waker.
func vh_sl_doner(x *vhSl, tid int, choice int) {
	x.s.Done()
	x.doneRet = 1
}

// after Done has returned nobody touches the sleeper: its shared list stays empty and its
// wait word stays clear (an Assert that was in flight when Done started must have been
// waited for)
func vh_sl_done_safe(x *vhSl) bool {
	return vand(x.bad == 0, vor(x.doneRet == 0, vand(x.s.sharedList == nil, x.s.waitingG == 0)))
}

// at the end every waker is detached (nil) or asserted-without-sleeper, i.e. attachable
func vh_sl_done_final(x *vhSl) bool {
	return vand(x.parked == 0, vor(x.k[0].w.s == nil, x.k[0].w.s == unsafe.Pointer(&assertedSleeper)))
}

// when everything has finished: the fetcher is not marked parked and no wake-up token is left over
func vh_sl_final(x *vhSl) bool { return vand(x.parked == 0, len(x.park) == 0) }

// ---------- sequential obligations (ordinary symbolic execution, one goroutine) ----------

// Assert k times (k in 0..2, per waker), optionally Clear, then drain with non-blocking
// fetches: each waker asserted and not cleared is reported exactly once, nothing else is.
func vh_sl_seq() {
	var s Sleeper
	var w [2]Waker
	s.AddWaker(&w[0], 10)
	s.AddWaker(&w[1], 20)
	_, ok := s.Fetch(false)
	vassert(!ok, "nothing asserted: a non-blocking fetch reports nothing")
	if vnBool("preclear") {
		// clearing a waker that is not asserted reports false and changes nothing: a later
		// Assert is still delivered
		vassert(!w[0].Clear(), "Clear of a waker that is not asserted reports false")
		vreach("preclear")
	}
	n0 := vnChoice("asserts0", 3)
	n1 := vnChoice("asserts1", 3)
	first := vnBool("w1first")
	if first {
		for i := 0; i < n1; i++ {
			w[1].Assert()
		}
	}
	for i := 0; i < n0; i++ {
		w[0].Assert()
	}
	if !first {
		for i := 0; i < n1; i++ {
			w[1].Assert()
		}
	}
	vassert(w[0].IsAsserted() == (n0 > 0) && w[1].IsAsserted() == (n1 > 0), "IsAsserted reflects Assert")
	cl := vnBool("clear0")
	if cl {
		r := w[0].Clear()
		vassert(r == (n0 > 0), "Clear reports whether the waker was asserted")
		vassert(!w[0].IsAsserted(), "a cleared waker is not asserted")
	}
	got0, got1 := 0, 0
	for k := 0; k < 4; k++ {
		id, ok := s.Fetch(false)
		if !ok {
			break
		}
		if id == 10 {
			got0++
		} else if id == 20 {
			got1++
		} else {
			vassert(false, "Fetch returns the identifier of an attached waker")
		}
	}
	want0, want1 := 0, 0
	if n0 > 0 && !cl {
		want0 = 1
	}
	if n1 > 0 {
		want1 = 1
	}
	vassert(got0 == want0, "waker 0 is reported exactly once iff asserted and not cleared (several asserts give one notification)")
	vassert(got1 == want1, "waker 1 is reported exactly once iff asserted")
	vassert(!w[0].IsAsserted() && !w[1].IsAsserted(), "a fetched waker is no longer asserted")
	if vnBool("postclear") {
		// a fetched (no longer asserted) waker: Clear reports false and the waker stays attached
		vassert(!w[0].Clear(), "Clear of a fetched waker reports false")
		w[0].Assert()
		id, ok := s.Fetch(false)
		vassert(ok && id == 10, "an Assert after a fruitless Clear is still delivered")
		vreach("postclear")
	}
	if want0 == 1 {
		// blocking fetch with a pending notification returns at once
		w[0].Assert()
		id, ok := s.Fetch(true)
		vassert(ok && id == 10, "a blocking fetch returns the pending waker")
		vreach("blocking-pending")
	}
	vreach("seq")
}

// Done: afterwards no waker touches the sleeper and every waker can be attached elsewhere
func vh_sl_done() {
	var s Sleeper
	var w [2]Waker
	s.AddWaker(&w[0], 10)
	s.AddWaker(&w[1], 20)
	a0 := vnBool("assert0")
	a1 := vnBool("assert1")
	if a0 {
		w[0].Assert()
	}
	if a1 {
		w[1].Assert()
	}
	if vnBool("fetch_one") {
		s.Fetch(false)
	}
	s.Done()
	vassert(s.allWakers == nil, "Done detaches all wakers")
	sl, ll, wg := s.sharedList, s.localList, s.waitingG
	w[0].Assert()
	w[1].Assert()
	vassert(s.sharedList == sl && s.localList == ll && s.waitingG == wg, "after Done no waker touches the sleeper")
	var s2 Sleeper
	s2.AddWaker(&w[0], 1)
	s2.AddWaker(&w[1], 2)
	seen := 0
	for k := 0; k < 3; k++ {
		id, ok := s2.Fetch(false)
		if !ok {
			break
		}
		vassert(id == 1 || id == 2, "the new sleeper reports the new identifiers")
		seen |= id
	}
	vassert(seen == 3, "wakers re-attached after Done deliver their (asserted) state to the new sleeper, once each")
	_, ok := s.Fetch(false)
	vassert(!ok, "the old sleeper gets nothing")
	vreach("done")
}
