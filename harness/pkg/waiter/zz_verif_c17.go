package waiter

// ---------- C17: wait queue ----------

type vhCB struct {
	calls int
	order *[]*Entry
	q     *Queue
}

func (c *vhCB) Callback(e *Entry) {
	// the linearisation argument for racing unregistrations needs callbacks to run inside
	// Notify's read-locked section: a writer (EventUnregister) must not be able to get in
	if c.q != nil {
		vassert(!c.q.mu.TryLock(), "callbacks run while the queue's read lock is held, so an unregistration cannot complete in between")
	}
	c.calls++
	*c.order = append(*c.order, e)
}

// vhQueue builds a queue holding an arbitrary subset of n entries in an arbitrary order,
// registered through the real EventRegister with symbolic masks.
func vhQueue(n int) (*Queue, []*Entry, []*vhCB, []bool, *[]*Entry) {
	q := &Queue{}
	order := &[]*Entry{}
	es := make([]*Entry, n)
	cbs := make([]*vhCB, n)
	in := make([]bool, n)
	for i := range es {
		cbs[i] = &vhCB{order: order, q: q}
		es[i] = &Entry{Callback: cbs[i]}
	}
	// some entries were registered and unregistered earlier (unregistration does not clear an
	// entry's own links, so such an entry carries stale next/prev pointers)
	stale := make([]bool, n)
	for i := range es {
		if vnBool("stale") {
			q.EventRegister(es[i], EventMask(0xffff))
			stale[i] = true
		}
	}
	// pick a permutation prefix: which entry is registered next, or stop
	for k := 0; k < n; k++ {
		c := vnChoice("pick", n+1)
		if c == n {
			break
		}
		if in[c] || stale[c] {
			vassume(false) // no entry twice (documented precondition)
		}
		q.EventRegister(es[c], EventMask(vnU16("mask")))
		in[c] = true
	}
	// the earlier unregistrations happened in either order: removing the later entry first
	// leaves a stale prev link in it, removing the earlier one first a stale next link
	if vnBool("stalerev") {
		for i := n - 1; i >= 0; i-- {
			if stale[i] {
				q.EventUnregister(es[i])
			}
		}
	} else {
		for i := range es {
			if stale[i] {
				q.EventUnregister(es[i])
			}
		}
	}
	return q, es, cbs, in, order
}

// list well-formedness: walking forward and backward visits the same entries
func vhWellFormed(q *Queue, es []*Entry, in []bool) bool {
	cnt := 0
	var last *Entry
	for it := q.list.Front(); it != nil; it = it.Next() {
		e := it.(*Entry)
		cnt++
		if cnt > len(es) {
			return false
		}
		if last == nil {
			if e.Prev() != nil {
				return false
			}
		} else if e.Prev() != last {
			return false
		}
		last = e
	}
	want := 0
	for _, b := range in {
		if b {
			want++
		}
	}
	if cnt != want {
		return false
	}
	if last == nil {
		return q.list.Back() == nil
	}
	return q.list.Back() == last
}

func vhOrder(q *Queue) []*Entry {
	var o []*Entry
	for it := q.list.Front(); it != nil; it = it.Next() {
		o = append(o, it.(*Entry))
	}
	return o
}

func vh_notify() {
	n := vparam("entries", 3)
	q, es, cbs, in, order := vhQueue(n)
	vassert(vhWellFormed(q, es, in), "registered entries form a well-formed list")
	listed := vhOrder(q)
	m := EventMask(vnU16("notify"))
	q.Notify(m)
	for i := range es {
		want := 0
		if in[i] && es[i].mask&m != 0 {
			want = 1
		}
		vassert(cbs[i].calls == want, "Notify invokes exactly once the callback of every registered entry with an intersecting mask, and of no other")
	}
	// in list order
	k := 0
	for _, e := range listed {
		if e.mask&m != 0 {
			vassert(k < len(*order) && (*order)[k] == e, "callbacks run in registration order")
			k++
		}
	}
	ev := q.Events()
	var all EventMask
	for i := range es {
		if in[i] {
			all |= es[i].mask
		}
	}
	vassert(ev == all, "Events is the union of the registered masks")
	vassert(q.IsEmpty() == (len(listed) == 0), "IsEmpty")
	vassert(q.mu.TryLock(), "no lock is left held")
	vreach("notify")
}

func vh_register_unregister() {
	n := vparam("entries", 3)
	q, es, cbs, in, _ := vhQueue(n)
	before := vhOrder(q)
	masks := make([]EventMask, n)
	for i := range es {
		masks[i] = es[i].mask
	}
	t := vnChoice("target", n)
	if in[t] {
		q.EventUnregister(es[t])
		in[t] = false
		after := vhOrder(q)
		vassert(len(after) == len(before)-1, "unregistering removes exactly one entry")
		j := 0
		for _, e := range before {
			if e == es[t] {
				continue
			}
			vassert(after[j] == e, "unregistering one entry never loses or reorders another")
			j++
		}
		vreach("unregistered")
	} else {
		m := EventMask(vnU16("newmask"))
		q.EventRegister(es[t], m)
		in[t] = true
		masks[t] = m
		after := vhOrder(q)
		vassert(len(after) == len(before)+1 && after[len(after)-1] == es[t], "registering appends the entry")
		for j, e := range before {
			vassert(after[j] == e, "registering one entry never loses or duplicates another")
		}
		vreach("registered")
	}
	vassert(vhWellFormed(q, es, in), "the list stays well-formed")
	for i := range es {
		if i != t {
			vassert(es[i].mask == masks[i], "other entries' masks are untouched")
		}
	}
	// an unregistered entry gets no callback afterwards
	q.Notify(EventMask(0xffff))
	for i := range es {
		if !in[i] {
			vassert(cbs[i].calls == 0, "an entry gets no callback after its unregistration has returned")
		} else if es[i].mask != 0 {
			vassert(cbs[i].calls == 1, "registered entries are notified")
		}
	}
}

// channel-backed entries: after a notify the channel holds a token until taken
func vh_channel_entry() {
	q := &Queue{}
	e, ch := NewChannelEntry(nil)
	q.EventRegister(&e, EventIn)
	k := 1 + vnChoice("notifies", 3)
	for i := 0; i < k; i++ {
		q.Notify(EventIn)
		vassert(len(ch) == 1, "after a notify the channel holds a token (repeated notifies neither block nor lose it)")
	}
	<-ch
	vassert(len(ch) == 0, "the waiter takes the token")
	q.Notify(EventOut)
	vassert(len(ch) == 0, "a notification for a mask the entry is not interested in produces no token")
	q.Notify(EventIn)
	vassert(len(ch) == 1, "a later notification is not lost")
	vreach("channel")
}
