package fdbased

import (
	"os"
	"syscall"

	"github.com/brewlin/net-protocol/pkg/buffer"
	tcpip "github.com/brewlin/net-protocol/protocol"
	"github.com/brewlin/net-protocol/stack"
)

type vhDispatcher struct {
	n     int
	size  int
	proto tcpip.NetworkProtocolNumber
	first int
}

func (d *vhDispatcher) DeliverNetworkPacket(linkEP stack.LinkEndpoint, dst, src tcpip.LinkAddress, protocol tcpip.NetworkProtocolNumber, vv buffer.VectorisedView) {
	d.n++
	d.size = vv.Size()
	d.proto = protocol
	d.first = len(vv.First())
}

// C07: no received frame, whatever its length, stops the link endpoint's receive loop or
// panics it; frames longer than the Ethernet header are handed up without the header.
func vh_dispatch() {
	n := 1 + vnChoice("framelen", vparam("maxframe", 20))
	if vnBool("long") {
		n = 128 + vnChoice("over", 3) - 1 // around the first buffer boundary
	}
	d := &vhDispatcher{}
	e := &endpoint{hdrSize: 14, views: make([]buffer.View, len(BufConfig)), iovecs: make([]syscall.Iovec, len(BufConfig)), dispatcher: d}
	if vsymbolic() {
		// the kernel fills the buffers: arbitrary bytes; readv returns n
		e.views[0] = buffer.View(vnBytes("frame", BufConfig[0]))
		e.views[1] = buffer.NewView(BufConfig[1])
		vreadvPush(n)
	} else {
		r, w, err := os.Pipe()
		if err != nil {
			panic(err)
		}
		w.Write(make([]byte, n))
		e.fd = int(r.Fd())
	}
	cont, err := e.dispatch()
	vassertKnown(err != nil || cont, "a received frame never stops the receive loop", "D9-runt-frame-stops-dispatch", n <= 14)
	if n > 14 {
		vassert(d.n == 1 && d.size == n-14, "a frame is handed up once, without its Ethernet header")
		vreach("delivered")
	} else {
		vassert(d.n == 0, "a frame without payload is not handed up")
		vreach("runt")
	}
}

// ---------- C06: Ethernet framing ----------
func vh_emit_eth() {
	mac := tcpip.LinkAddress(vnString("mac", 6))
	e := &endpoint{hdrSize: 14, addr: mac}
	n := vnChoice("hdrlen", 2) * 20
	m := vnChoice("paylen", 4)
	hdr := buffer.NewPrependable(14 + n)
	copy(hdr.Prepend(n), vnBytes("nhdr", n))
	payload := vnBytes("payload", m)
	var vv buffer.VectorisedView
	if m > 0 {
		vv = buffer.View(payload).ToVectorisedView()
	}
	if m >= 2 && vnBool("twoviews") {
		// payloads spanning several views (replies to large frames, forwarded packets)
		vv = buffer.NewVectorisedView(m, []buffer.View{buffer.View(payload[:1]), buffer.View(payload[1:])})
		vreach("multi-view")
	}
	r := &stack.Route{RemoteLinkAddress: tcpip.LinkAddress(vnString("dstmac", 6)), LocalLinkAddress: tcpip.LinkAddress(vnString("srcmac", 6))}
	if vnBool("haslocal") {
		r.LocalAddress = "\x0a\x00\x00\x01"
		r.RemoteAddress = "\x0a\x00\x00\x02"
	}
	proto := tcpip.NetworkProtocolNumber(vnU16("proto"))
	err := e.WritePacket(r, hdr, vv, proto)
	vassert(err == nil && vfdWrites() == 1, "one frame is written to the device")
	fr := vfdWrite(0)
	vassert(len(fr) == 14+n+m, "frame = Ethernet header + network header + payload")
	for i := 0; i < 6; i++ {
		vassert(fr[i] == r.RemoteLinkAddress[i], "the destination MAC is the one resolved for the next hop")
		if r.LocalAddress != "" {
			vassert(fr[6+i] == r.LocalLinkAddress[i], "the source MAC is the route's local link address")
		} else {
			vassert(fr[6+i] == mac[i], "without a local address the source MAC is the endpoint's own")
		}
	}
	vassert(uint16(fr[12])<<8|uint16(fr[13]) == uint16(proto), "EtherType = network protocol")
	for i := 0; i < m; i++ {
		vassert(fr[14+n+i] == payload[i], "payload follows unchanged")
	}
	vreach("eth")
}
