package fdbased

import (
	"os"
	"syscall"

	"github.com/brewlin/net-protocol/pkg/buffer"
	tcpip "github.com/brewlin/net-protocol/protocol"
	"github.com/brewlin/net-protocol/stack"
)

type vhDispatcher struct {
	n     int
	size  int
	proto tcpip.NetworkProtocolNumber
	first int
}

func (d *vhDispatcher) DeliverNetworkPacket(linkEP stack.LinkEndpoint, dst, src tcpip.LinkAddress, protocol tcpip.NetworkProtocolNumber, vv buffer.VectorisedView) {
	d.n++
	d.size = vv.Size()
	d.proto = protocol
	d.first = len(vv.First())
}

// C07: no received frame, whatever its length, stops the link endpoint's receive loop or
// panics it; frames longer than the Ethernet header are handed up without the header.
func vh_dispatch() {
	n := 1 + vnChoice("framelen", vparam("maxframe", 20))
	if vnBool("long") {
		n = 128 + vnChoice("over", 3) - 1 // around the first buffer boundary
	}
	d := &vhDispatcher{}
	e := &endpoint{hdrSize: 14, views: make([]buffer.View, len(BufConfig)), iovecs: make([]syscall.Iovec, len(BufConfig)), dispatcher: d}
	if vsymbolic() {
		// the kernel fills the buffers: arbitrary bytes; readv returns n
		e.views[0] = buffer.View(vnBytes("frame", BufConfig[0]))
		e.views[1] = buffer.NewView(BufConfig[1])
		vreadvPush(n)
	} else {
		r, w, err := os.Pipe()
		if err != nil {
			panic(err)
		}
		w.Write(make([]byte, n))
		e.fd = int(r.Fd())
	}
	cont, err := e.dispatch()
	vassertKnown(err != nil || cont, "a received frame never stops the receive loop", "D9-runt-frame-stops-dispatch", n <= 14)
	if n > 14 {
		vassert(d.n == 1 && d.size == n-14, "a frame is handed up once, without its Ethernet header")
		vreach("delivered")
	} else {
		vassert(d.n == 0, "a frame without payload is not handed up")
		vreach("runt")
	}
}
