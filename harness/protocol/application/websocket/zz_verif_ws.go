package websocket

import (
	"github.com/brewlin/net-protocol/protocol/application/http"
)

func vhSame(a, b []byte) bool {
	if len(a) != len(b) {
		return false
	}
	var d byte
	for i := range a {
		d |= a[i] ^ b[i]
	}
	return d == 0
}

// message of n bytes: a few symbolic bytes at the interesting positions, a fixed pattern elsewhere
func vhMsg(name string, n int) []byte {
	b := make([]byte, n)
	for i := range b {
		b[i] = byte(i*7 + 3)
	}
	for _, p := range []int{0, 1, 124, 125, 126, n - 2, n - 1} {
		if p >= 0 && p < n {
			b[p] = vnU8(name)
		}
	}
	return b
}

var vhLens = []int{0, 1, 2, 125, 126, 127, 65535, 65536, 65537}

// independent RFC 6455 header decoder: returns header size, payload length, masked
func vhDecodeHdr(f []byte) (hdr int, plen int, masked bool, ok bool) {
	if len(f) < 2 || f[0] != 0x81 {
		return 0, 0, false, false
	}
	masked = f[1]&0x80 != 0
	l := int(f[1] & 0x7f)
	hdr = 2
	switch l {
	case 126:
		if len(f) < 4 {
			return 0, 0, false, false
		}
		l = int(f[2])<<8 | int(f[3])
		hdr = 4
	case 127:
		if len(f) < 10 {
			return 0, 0, false, false
		}
		l = 0
		for i := 0; i < 8; i++ {
			l = l<<8 | int(f[2+i])
		}
		hdr = 10
	}
	return hdr, l, masked, true
}

// ---------- C20: WebSocket framing ----------
// a message sent with SendData is framed per RFC 6455 in the right length class and read
// back intact by ReadData; a second message queued behind it is read intact as well.
func vh_ws_roundtrip() {
	li := vhPick2("len", len(vhLens))
	n := vhLens[li]
	msg := vhMsg("m", n)
	msg2 := vhMsg("second", 3)
	s := &http.VHSock{}
	c := newConn(http.VHConn(s))
	vassert(c.SendData(msg) == nil, "send succeeds")
	frame := s.Out
	hdr, plen, masked, ok := vhDecodeHdr(frame)
	vassert(ok && !masked && plen == n, "the frame header decodes (FIN, text) to the message length under an independent RFC 6455 decoder")
	wantHdr := 2
	if n > 125 {
		wantHdr = 4
	}
	if n >= 65536 {
		wantHdr = 10
	}
	vassert(hdr == wantHdr && len(frame) == hdr+n, "the header has the size its length class dictates (<=125, <=65535, larger) and the frame ends with the payload")
	vassert(vhSame(frame[hdr:], msg), "the payload follows the header unchanged")
	vassert(c.SendData(msg2) == nil, "second send succeeds")
	// loop back: the peer reads what was written
	s.In = s.Out
	s.Out = nil
	got, err := c.ReadData()
	vassert(err == nil && vhSame(got, msg), "the message is received with exactly the bytes that were sent")
	got2, err2 := c.ReadData()
	vassert(err2 == nil && vhSame(got2, msg2), "a message queued behind it is read intact, in order (framing neither over- nor under-reads)")
	vassert(len(s.In) == 0, "nothing is left over")
	vreach("roundtrip")
}

func vhPick2(name string, n int) int {
	if k := vparam(name, -1); k >= 0 {
		return k
	}
	return vnChoice(name, n)
}

// masked frames (client to server), built by an independent encoder, decode to the original
func vh_ws_masked() {
	n := []int{0, 1, 5, 125, 126, 300}[vnChoice("len", 6)]
	msg := make([]byte, n)
	for i := range msg {
		msg[i] = byte(i*5 + 1)
	}
	for _, p := range []int{0, 1, 2, 3, 4, n - 1} {
		if p >= 0 && p < n {
			msg[p] = vnU8("m")
		}
	}
	key := vnBytes("key", 4)
	var f []byte
	f = append(f, 0x81)
	if n <= 125 {
		f = append(f, 0x80|byte(n))
	} else {
		f = append(f, 0x80|126, byte(n>>8), byte(n))
	}
	f = append(f, key...)
	for i, b := range msg {
		f = append(f, b^key[i%4])
	}
	s := &http.VHSock{In: f}
	c := newConn(http.VHConn(s))
	// a second, unmasked frame follows on the same connection ("every text message, masked or
	// not, ... in order"): state kept from the first frame must not leak into it
	m2 := vnBytes("second", 3)
	s.In = append(s.In, 0x81, 3)
	s.In = append(s.In, m2...)
	got, err := c.ReadData()
	vassert(err == nil && vhSame(got, msg), "a masked frame is received with exactly the bytes that were sent, for every masking key")
	got2, err2 := c.ReadData()
	vassert(err2 == nil && vhSame(got2, m2), "an unmasked frame after a masked one is received unchanged")
	vreach("masked")
}

// maskBytes: b[i] ^= key[i mod 4] (loop-cut lemma on the real loop)
var vhMaskBuf, vhMaskOld []byte
var vhMaskKey [4]byte

// rangeindex is go/ssa's hidden loop counter of `for i := range b` (i = rangeindex+1)
func vinv_mask(rangeindex int, pos int) bool {
	return rangeindex >= -1 && rangeindex < len(vhMaskBuf) && pos == rangeindex+1
}

func vstep_mask(rangeindex int, rangeindex_next int, pos int, pos_next int) bool {
	return rangeindex_next == rangeindex+1 && pos_next == pos+1 && vhMaskBuf[pos] == vhMaskOld[pos]^vhMaskKey[pos&3]
}

func vh_mask_step() {
	n := vparam("masklen", 9)
	vhMaskBuf = vnBytes("b", n)
	vhMaskOld = append([]byte{}, vhMaskBuf...)
	copy(vhMaskKey[:], vnBytes("key", 4))
	maskBytes(vhMaskKey, vhMaskBuf)
	vreach("mask-exit")
}

func vh_mask_unrolled() {
	n := vnChoice("n", vparam("maskmax", 9)+1)
	b := vnBytes("b", n)
	old := append([]byte{}, b...)
	var key [4]byte
	copy(key[:], vnBytes("key", 4))
	maskBytes(key, b)
	for i := range b {
		vassert(b[i] == old[i]^key[i%4], "maskBytes xors byte i with key[i mod 4]")
	}
	maskBytes(key, b)
	vassert(vhSame(b, old), "masking twice restores the message")
	vreach("mask")
}
