package http

import (
	"github.com/brewlin/net-protocol/pkg/waiter"
	tcpip "github.com/brewlin/net-protocol/protocol"
)

// VHSock is a byte-stream model of the TCP socket underneath a Connection: writes append
// to the stream of the other direction, Readn hands out exactly the requested bytes.
type VHSock struct {
	In     []byte // bytes the peer sent, not yet read
	Out    []byte // bytes written by this side
	Closed bool
}

func (s *VHSock) Write(buf []byte) error {
	s.Out = append(s.Out, buf...)
	return nil
}
func (s *VHSock) Read() ([]byte, error) {
	b := s.In
	s.In = nil
	return b, nil
}
func (s *VHSock) Readn(p []byte) (int, error) {
	if len(s.In) < len(p) {
		return 0, vhShort{}
	}
	copy(p, s.In[:len(p)])
	s.In = s.In[len(p):]
	return len(p), nil
}
func (s *VHSock) Close()                            { s.Closed = true }
func (s *VHSock) GetAddr() tcpip.Address            { return "" }
func (s *VHSock) GetRemoteAddr() *tcpip.FullAddress { return &tcpip.FullAddress{} }
func (s *VHSock) GetQueue() *waiter.Queue           { return nil }
func (s *VHSock) GetNotify() chan struct{}          { return nil }

type vhShort struct{}

func (vhShort) Error() string { return "short read" }

// VHConn builds a Connection over the stream model.
func VHConn(s *VHSock) *Connection {
	con := &Connection{socket: s, status_code: 200, recv_state: HTTP_RECV_STATE_WORD1}
	con.request = newRequest()
	con.response = newResponse(con)
	return con
}

// a token of n symbolic bytes that contain no delimiter and are plain ASCII
func vhToken(name string, n int) string {
	s := vnString(name, n)
	for i := 0; i < n; i++ {
		c := s[i]
		vassume(c > 0x20 && c < 0x7f && c != ':')
	}
	return s
}

// ---------- C20: HTTP request parsing and dispatch ----------
func vh_http_parse() {
	methods := []string{"GET", "HEAD", "POST", "PUT"}
	mi := vnChoice("method", 5)
	var method string
	if mi < 4 {
		method = methods[mi]
	} else {
		method = vhToken("othermethod", 3)
		vassume(method != "GET" && method != "PUT")
	}
	path := "/" + vhToken("path", vnChoice("pathlen", 3))
	hk := vhToken("hkey", 1+vnChoice("hklen", 2))
	// header values may contain ':' and ' ' (e.g. "status: done", URLs, times); no CR/LF
	hv := vnString("hval", 1+vnChoice("hvlen", 4))
	for i := 0; i < len(hv); i++ {
		vassume(hv[i] >= 0x20 && hv[i] < 0x7f)
	}
	vassume(hv[0] != ' ')
	hasHeader := vnBool("hasheader")
	// the body is arbitrary bytes (it may contain CR, LF, ':' and ' ')
	body := vnString("body", vnChoice("bodylen", 5))
	raw := method + " " + path + " HTTP/1.1\r\n"
	if hasHeader {
		raw += hk + ": " + hv + "\r\n"
	}
	raw += "\r\n" + body
	s := &VHSock{In: []byte(raw)}
	con := VHConn(s)
	v, _ := con.socket.Read()
	con.recv_buf = string(v)
	con.request.parse(con)
	r := con.request
	vassert(r.method_raw == method && r.GetMethod() == method, "the handler sees the request's method")
	vassert(r.uri == path, "the handler sees the request's path")
	vassert(r.version_raw == "HTTP/1.1" && r.version == HTTP_VERSION_11, "the version is recognised")
	if hasHeader {
		vassert(r.GetHeader(hk) == hv && r.headers.len == 1, "the handler sees the request's header")
		vreach("header")
	} else {
		vassert(r.headers.len == 0, "no header is invented")
	}
	switch mi {
	case 0:
		vassert(r.method == HTTP_METHOD_GET && con.status_code == 200, "GET is accepted")
	case 1:
		vassert(r.method == HTTP_METHOD_HEAD && con.status_code == 200, "HEAD is accepted")
	}
	// the body is what follows the blank line
	vassert(r.body == body && r.GetBody() == body, "the handler sees the request's body")
	vreach("parsed")
}

func vh_http_dispatch() {
	defaultMux = ServeMux{}
	called := ""
	var srv Server
	srv.HandleFunc("/a", func(q *Request, p *Response) { called += "a" })
	srv.HandleFunc("/bc", func(q *Request, p *Response) { called += "b" })
	s := &VHSock{}
	con := VHConn(s)
	con.request.uri = "/" + vnString("path", vnChoice("pathlen", 3))
	defaultMux.dispatch(con)
	switch con.request.uri {
	case "/a":
		vassert(called == "a", "the handler registered for exactly the request's path is invoked, once")
		vreach("a")
	case "/bc":
		vassert(called == "b", "the handler registered for exactly the request's path is invoked, once")
		vreach("b")
	default:
		vassert(called == "" && con.status_code != 0, "a path nobody registered never invokes a handler")
		vreach("none")
	}
}

// ---------- C20: the bundled client's request text, as the bundled server parses it ----------
// Client side: the real Request.init / SetMethod / SetHeaders / SetData / Request.send build
// the text; server side: the real Connection read + Request.parse. (The TCP connection in
// between is the byte-stream model; Client.Push itself is bound to the concrete TCP client.)
func vh_http_client_request() {
	c := &Client{req: newRequest()}
	path := "/" + vhToken("path", vnChoice("pathlen", 3))
	c.req.init(path, "10.0.2.15", 8080)
	mi := vnChoice("method", 3)
	method := "GET"
	switch mi {
	case 1:
		method = "POST"
		c.SetMethod(method)
	case 2:
		method = vhToken("othermethod", 3)
		c.SetMethod(method)
	}
	hk := vhToken("hkey", 1+vnChoice("hklen", 2))
	hv := vnString("hval", 1+vnChoice("hvlen", 3))
	for i := 0; i < len(hv); i++ {
		vassume(hv[i] >= 0x20 && hv[i] < 0x7f)
	}
	vassume(hv[0] != ' ')
	hasHeader := vnBool("hasheader")
	if hasHeader {
		c.SetHeaders(map[string]string{hk: hv})
	}
	body := vnString("body", vnChoice("bodylen", 5))
	c.SetData(body)
	raw := c.req.send()

	s := &VHSock{In: []byte(raw)}
	con := VHConn(s)
	v, _ := con.socket.Read()
	con.recv_buf = string(v)
	con.request.parse(con)
	r := con.request
	vassert(r.GetMethod() == method, "the server sees the method the client set (GET by default)")
	vassert(r.uri == path, "the server sees the path of the client's URL")
	vassert(r.version == HTTP_VERSION_11, "the request line carries a version the server accepts")
	vassert(r.GetHeader("Host") == "10.0.2.15:8080" && r.GetHeader("User-Agent") == "net-protocol/5.0" && r.GetHeader("Accept") == "*/*", "the client's standard headers arrive")
	if hasHeader {
		vassert(r.GetHeader(hk) == hv && r.headers.len == 4, "a header set by the application arrives with its value")
		vreach("header")
	} else {
		vassert(r.headers.len == 3, "no header is invented")
	}
	vassert(r.GetBody() == body, "the server sees exactly the body the client set")
	if mi == 0 {
		vassert(r.method == HTTP_METHOD_GET && con.status_code == 200, "a default request is accepted")
	}
	vreach("parsed")
}

// ---------- C20: the handler's status and body, as the bundled client receives them ----------
// Server side: the real Connection.handler (read, parse, dispatch, Response.send ->
// build_and_send_response); client side: what Client.Push does with the bytes it read
// (recv_buf, Request.parse) and what GetResult returns (GetBody).
func vh_http_response_roundtrip() {
	defaultMux = ServeMux{}
	body := vnString("body", 1+vnChoice("bodylen", 4))
	calls := 0
	var srv Server
	srv.HandleFunc("/a", func(q *Request, p *Response) { calls++; p.End(body) })
	registered := vnBool("registered")
	reqPath := "/a"
	if !registered {
		reqPath = "/b"
	}
	s := &VHSock{In: []byte("GET " + reqPath + " HTTP/1.1\r\nHost: h\r\n\r\n")}
	con := VHConn(s)
	con.handler()
	vassert(len(s.Out) > 0, "a response is written")

	ccon := VHConn(&VHSock{})
	ccon.recv_buf = string(s.Out)
	ccon.request.parse(ccon)
	cl := &Client{con: ccon}
	got := cl.GetRequest()
	vassert(got.method_raw == "HTTP/1.1", "the status line starts with the protocol version")
	if registered {
		vassert(calls == 1, "the handler runs once")
		vassert(got.uri == "200", "the client receives the status the handler produced")
		vassert(got.GetBody() == body, "the client receives exactly the body the handler produced")
		vassert(got.GetHeader("Connection") == "close", "response headers are delimited from the body")
		vreach("ok")
	} else {
		vassert(calls == 0, "a path nobody registered never invokes a handler")
		vassert(got.GetBody() != "" , "the client still receives a response body")
		vreach("unregistered")
	}
}
