package http

import (
	"github.com/brewlin/net-protocol/pkg/waiter"
	tcpip "github.com/brewlin/net-protocol/protocol"
)

// VHSock is a byte-stream model of the TCP socket underneath a Connection: writes append
// to the stream of the other direction, Readn hands out exactly the requested bytes.
type VHSock struct {
	In     []byte // bytes the peer sent, not yet read
	Out    []byte // bytes written by this side
	Closed bool
}

func (s *VHSock) Write(buf []byte) error {
	s.Out = append(s.Out, buf...)
	return nil
}
func (s *VHSock) Read() ([]byte, error) {
	b := s.In
	s.In = nil
	return b, nil
}
func (s *VHSock) Readn(p []byte) (int, error) {
	if len(s.In) < len(p) {
		return 0, vhShort{}
	}
	copy(p, s.In[:len(p)])
	s.In = s.In[len(p):]
	return len(p), nil
}
func (s *VHSock) Close()                            { s.Closed = true }
func (s *VHSock) GetAddr() tcpip.Address            { return "" }
func (s *VHSock) GetRemoteAddr() *tcpip.FullAddress { return &tcpip.FullAddress{} }
func (s *VHSock) GetQueue() *waiter.Queue           { return nil }
func (s *VHSock) GetNotify() chan struct{}          { return nil }

type vhShort struct{}

func (vhShort) Error() string { return "short read" }

// VHConn builds a Connection over the stream model.
func VHConn(s *VHSock) *Connection {
	con := &Connection{socket: s, status_code: 200, recv_state: HTTP_RECV_STATE_WORD1}
	con.request = newRequest()
	con.response = newResponse(con)
	return con
}

// a token of n symbolic bytes that contain no delimiter and are plain ASCII
func vhToken(name string, n int) string {
	s := vnString(name, n)
	for i := 0; i < n; i++ {
		c := s[i]
		vassume(c > 0x20 && c < 0x7f && c != ':')
	}
	return s
}

// ---------- C20: HTTP request parsing and dispatch ----------
func vh_http_parse() {
	methods := []string{"GET", "HEAD", "POST", "PUT"}
	mi := vnChoice("method", 5)
	var method string
	if mi < 4 {
		method = methods[mi]
	} else {
		method = vhToken("othermethod", 3)
		vassume(method != "GET" && method != "PUT")
	}
	path := "/" + vhToken("path", vnChoice("pathlen", 3))
	hk := vhToken("hkey", 1+vnChoice("hklen", 2))
	// header values may contain ':' and ' ' (e.g. "status: done", URLs, times); no CR/LF
	hv := vnString("hval", 1+vnChoice("hvlen", 4))
	for i := 0; i < len(hv); i++ {
		vassume(hv[i] >= 0x20 && hv[i] < 0x7f)
	}
	vassume(hv[0] != ' ')
	hasHeader := vnBool("hasheader")
	// the body is arbitrary bytes (it may contain CR, LF, ':' and ' ')
	body := vnString("body", vnChoice("bodylen", 5))
	raw := method + " " + path + " HTTP/1.1\r\n"
	if hasHeader {
		raw += hk + ": " + hv + "\r\n"
	}
	raw += "\r\n" + body
	s := &VHSock{In: []byte(raw)}
	con := VHConn(s)
	v, _ := con.socket.Read()
	con.recv_buf = string(v)
	con.request.parse(con)
	r := con.request
	vassert(r.method_raw == method && r.GetMethod() == method, "the handler sees the request's method")
	vassert(r.uri == path, "the handler sees the request's path")
	vassert(r.version_raw == "HTTP/1.1" && r.version == HTTP_VERSION_11, "the version is recognised")
	if hasHeader {
		vassert(r.GetHeader(hk) == hv && r.headers.len == 1, "the handler sees the request's header")
		vreach("header")
	} else {
		vassert(r.headers.len == 0, "no header is invented")
	}
	switch mi {
	case 0:
		vassert(r.method == HTTP_METHOD_GET && con.status_code == 200, "GET is accepted")
	case 1:
		vassert(r.method == HTTP_METHOD_HEAD && con.status_code == 200, "HEAD is accepted")
	}
	// the body is what follows the blank line
	vassert(r.body == body && r.GetBody() == body, "the handler sees the request's body")
	vreach("parsed")
}

func vh_http_dispatch() {
	defaultMux = ServeMux{}
	called := ""
	var srv Server
	srv.HandleFunc("/a", func(q *Request, p *Response) { called += "a" })
	srv.HandleFunc("/bc", func(q *Request, p *Response) { called += "b" })
	s := &VHSock{}
	con := VHConn(s)
	con.request.uri = "/" + vnString("path", vnChoice("pathlen", 3))
	defaultMux.dispatch(con)
	switch con.request.uri {
	case "/a":
		vassert(called == "a", "the handler registered for exactly the request's path is invoked, once")
		vreach("a")
	case "/bc":
		vassert(called == "b", "the handler registered for exactly the request's path is invoked, once")
		vreach("b")
	default:
		vassert(called == "" && con.status_code != 0, "a path nobody registered never invokes a handler")
		vreach("none")
	}
}
