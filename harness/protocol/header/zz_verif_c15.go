package header

import (
	"github.com/brewlin/net-protocol/pkg/seqnum"
	tcpip "github.com/brewlin/net-protocol/protocol"
)

// C15: header round-trips against RFC layouts written out independently, option codecs,
// and the Internet checksum.

func vhBE16(b []byte, o int) uint16 { return uint16(b[o])<<8 | uint16(b[o+1]) }
func vhBE32(b []byte, o int) uint32 {
	return uint32(b[o])<<24 | uint32(b[o+1])<<16 | uint32(b[o+2])<<8 | uint32(b[o+3])
}

// vhBuf returns a buffer of n symbolic bytes framed by one guard byte on each side; the
// header slice handed to the code is cap-limited so writes past it are out of range.
func vhBuf(n int) (full []byte, hdr []byte, old []byte) {
	full = vnBytes("buf", n+2)
	old = make([]byte, n+2)
	copy(old, full)
	return full, full[1 : 1+n : 1+n], old
}

func vhSameBytes(a, b []byte) bool {
	if len(a) != len(b) {
		return false
	}
	var d byte
	for i := range a {
		d |= a[i] ^ b[i]
	}
	return d == 0
}

func vhGuards(full, old []byte) bool {
	return full[0] == old[0] && full[len(full)-1] == old[len(old)-1]
}

func vh_eth() {
	full, h, old := vhBuf(EtheernetMinimumsize)
	src, dst := vnString("src", 6), vnString("dst", 6)
	typ := vnU16("type")
	Ethernet(h).Encode(&EthernetFields{SrcAddr: tcpip.LinkAddress(src), DstAddr: tcpip.LinkAddress(dst), Type: tcpip.NetworkProtocolNumber(typ)})
	e := Ethernet(h)
	vassert(e.SourceAddress() == tcpip.LinkAddress(src) && e.DestinationAddress() == tcpip.LinkAddress(dst) && uint16(e.Type()) == typ, "Ethernet accessors return the encoded fields")
	// RFC 894 / IEEE 802.3 layout: dst(6) src(6) type(2)
	vassert(vhSameBytes(h[0:6], []byte(dst)) && vhSameBytes(h[6:12], []byte(src)) && vhBE16(h, 12) == typ, "Ethernet bytes match the wire layout")
	vassert(vhGuards(full, old), "Ethernet.Encode writes nothing outside the header")
	vreach("eth")
}

func vh_arp() {
	full, h, old := vhBuf(ARPSize)
	a := ARP(h)
	a.SetIpv4OverEthernet()
	op := vnU16("op")
	a.SetOp(ARPOp(op))
	sha, spa, tha, tpa := vnBytes("sha", 6), vnBytes("spa", 4), vnBytes("tha", 6), vnBytes("tpa", 4)
	copy(a.HardwareAddressSender(), sha)
	copy(a.ProtocolAddressSender(), spa)
	copy(a.HardwareAddressTarget(), tha)
	copy(a.ProtocolAddressTarget(), tpa)
	vassert(a.IsValid(), "an IPv4-over-Ethernet ARP packet is valid")
	vassert(uint16(a.Op()) == op, "ARP Op round-trips")
	// RFC 826: htype(2)=1 ptype(2)=0x0800 hlen=6 plen=4 op(2) sha(6) spa(4) tha(6) tpa(4)
	vassert(vhBE16(h, 0) == 1 && vhBE16(h, 2) == 0x0800 && h[4] == 6 && h[5] == 4 && vhBE16(h, 6) == op, "ARP fixed fields match RFC 826")
	vassert(vhSameBytes(h[8:14], sha) && vhSameBytes(h[14:18], spa) && vhSameBytes(h[18:24], tha) && vhSameBytes(h[24:28], tpa), "ARP addresses sit at the RFC 826 offsets")
	vassert(vhGuards(full, old), "ARP setters write nothing outside the packet")
	vreach("arp")
}

func vh_arp_isvalid() {
	n := vnChoice("n", ARPSize+2)
	b := vnBytes("b", n)
	ok := ARP(b).IsValid() // must not panic for any length
	if ok {
		vassert(n >= ARPSize && vhBE16(b, 0) == 1 && vhBE16(b, 2) == 0x0800 && b[4] == 6 && b[5] == 4, "ARP.IsValid accepts only complete Ethernet/IPv4 packets")
	}
	vreach("arp-isvalid")
}

func vh_ipv4() {
	full, h, old := vhBuf(IPv4MinimumSize)
	f := IPv4Fields{IHL: vnU8("ihl"), TOS: vnU8("tos"), TotalLength: vnU16("tl"), ID: vnU16("id"), Flags: vnU8("flags"),
		FragmentOffset: vnU16("fo"), TTL: vnU8("ttl"), Protocol: vnU8("proto"), Checksum: vnU16("ck"),
		SrcAddr: tcpip.Address(vnString("src", 4)), DstAddr: tcpip.Address(vnString("dst", 4))}
	// encodable domain
	vassume(f.IHL%4 == 0 && f.IHL <= 60 && f.Flags < 8 && f.FragmentOffset%8 == 0)
	b := IPv4(h)
	b.Encode(&f)
	vassert(b.HeaderLength() == f.IHL && b.TotalLength() == f.TotalLength && b.ID() == f.ID && b.Flags() == f.Flags &&
		b.FragmentOffset() == f.FragmentOffset && b.TTL() == f.TTL && b.Protocol() == f.Protocol && b.Checksum() == f.Checksum &&
		b.SourceAddress() == f.SrcAddr && b.DestinationAddress() == f.DstAddr, "IPv4 accessors return the encoded fields")
	tos, _ := b.TOS()
	vassert(tos == f.TOS && uint8(b.TransportProtocol()) == f.Protocol, "IPv4 TOS/TransportProtocol")
	// RFC 791 layout
	vassert(h[0] == 0x40|f.IHL/4 && h[1] == f.TOS && vhBE16(h, 2) == f.TotalLength && vhBE16(h, 4) == f.ID &&
		vhBE16(h, 6) == uint16(f.Flags)<<13|f.FragmentOffset/8 && h[8] == f.TTL && h[9] == f.Protocol && vhBE16(h, 10) == f.Checksum &&
		vhSameBytes(h[12:16], []byte(f.SrcAddr)) && vhSameBytes(h[16:20], []byte(f.DstAddr)), "IPv4 bytes match RFC 791")
	vassert(vhGuards(full, old), "IPv4.Encode writes nothing outside the header")
	if f.IHL >= 20 && f.TotalLength >= uint16(f.IHL) {
		vassert(b.PayloadLength() == f.TotalLength-uint16(f.IHL), "IPv4 PayloadLength = total - header")
	}
	vreach("ipv4")
}

func vh_ipv4_setters() {
	_, h, _ := vhBuf(IPv4MinimumSize)
	b := IPv4(h)
	old := make([]byte, 20)
	copy(old, h)
	tl, ck, fl, fo, tos := vnU16("tl"), vnU16("ck"), vnU8("fl"), vnU16("fo"), vnU8("tos")
	src, dst := tcpip.Address(vnString("src", 4)), tcpip.Address(vnString("dst", 4))
	vassume(fl < 8 && fo%8 == 0)
	b.SetTotalLength(tl)
	b.SetChecksum(ck)
	b.SetFlagsFragmentOffset(fl, fo)
	b.SetTOS(tos, 0)
	b.SetSourceAddress(src)
	b.SetDestinationAddress(dst)
	vassert(b.TotalLength() == tl && b.Checksum() == ck && b.Flags() == fl && b.FragmentOffset() == fo && b.SourceAddress() == src && b.DestinationAddress() == dst, "IPv4 setters round-trip")
	vassert(h[0] == old[0] && vhBE16(h, 4) == vhBE16(old, 4) && h[8] == old[8] && h[9] == old[9], "IPv4 setters leave the other fields alone")
	vreach("ipv4-set")
}

func vh_ipv4_isvalid() {
	n := vnChoice("n", 25)
	b := vnBytes("b", n)
	sz := vnInt("pktsize")
	ok := IPv4(b).IsValid(sz)
	if ok {
		vassert(n >= 20 && int(vhBE16(b, 2)) <= sz && int(b[0]&0xf)*4 <= int(vhBE16(b, 2)), "IPv4.IsValid implies a complete header and consistent lengths")
	}
	_ = IPVersion(b)
	vreach("ipv4-isvalid")
}

func vh_ipv6() {
	full, h, old := vhBuf(IPv6MinimumSize)
	f := IPv6Fields{TrafficClass: vnU8("tc"), FlowLabel: vnU32("fl"), PayloadLength: vnU16("pl"), NextHeader: vnU8("nh"), HopLimit: vnU8("hl"),
		SrcAddr: tcpip.Address(vnString("src", 16)), DstAddr: tcpip.Address(vnString("dst", 16))}
	vassume(f.FlowLabel < 1<<20)
	b := IPv6(h)
	b.Encode(&f)
	tc, fl := b.TOS()
	vassert(tc == f.TrafficClass && fl == f.FlowLabel && b.PayloadLength() == f.PayloadLength && b.NextHeader() == f.NextHeader && b.HopLimit() == f.HopLimit &&
		b.SourceAddress() == f.SrcAddr && b.DestinationAddress() == f.DstAddr && uint8(b.TransportProtocol()) == f.NextHeader, "IPv6 accessors return the encoded fields")
	// RFC 8200: version(4)=6 tc(8) flow(20) | payload len | next hdr | hop limit | src | dst
	vassert(vhBE32(h, 0) == 6<<28|uint32(f.TrafficClass)<<20|f.FlowLabel && vhBE16(h, 4) == f.PayloadLength && h[6] == f.NextHeader && h[7] == f.HopLimit &&
		vhSameBytes(h[8:24], []byte(f.SrcAddr)) && vhSameBytes(h[24:40], []byte(f.DstAddr)), "IPv6 bytes match RFC 8200")
	vassert(vhGuards(full, old), "IPv6.Encode writes nothing outside the header")
	pl, nh := vnU16("pl2"), vnU8("nh2")
	b.SetPayloadLength(pl)
	b.SetNextHeader(nh)
	vassert(b.PayloadLength() == pl && b.NextHeader() == nh && b.HopLimit() == f.HopLimit, "IPv6 setters round-trip")
	vreach("ipv6")
}

func vh_ipv6_isvalid() {
	n := vnChoice("n", 43)
	b := vnBytes("b", n)
	sz := vnInt("pktsize")
	vassume(sz >= 0 && sz < 1<<20)
	if IPv6(b).IsValid(sz) {
		vassert(n >= 40 && int(vhBE16(b, 4)) <= sz-40, "IPv6.IsValid implies a complete header and payload length within the packet")
	}
	vreach("ipv6-isvalid")
}

func vh_ipv6frag() {
	full, h, old := vhBuf(IPv6FragmentHeaderSize)
	f := IPv6FragmentFields{NextHeader: vnU8("nh"), FragmentOffset: vnU16("fo"), M: vnBool("m"), Identification: vnU32("id")}
	vassume(f.FragmentOffset < 1<<13)
	// the reserved byte and the flag bits start out clear in a freshly built header
	h[1], h[2], h[3] = 0, 0, 0
	b := IPv6Fragment(h)
	b.Encode(&f)
	vassert(b.IsValid() && b.NextHeader() == f.NextHeader && b.FragmentOffset() == f.FragmentOffset && b.More() == f.M && b.ID() == f.Identification, "IPv6 fragment accessors return the encoded fields")
	m := uint16(0)
	if f.M {
		m = 1
	}
	// RFC 8200 4.5: next hdr | reserved | offset(13) res(2) M | identification
	vassert(h[0] == f.NextHeader && vhBE16(h, 2) == f.FragmentOffset<<3|m && vhBE32(h, 4) == f.Identification, "IPv6 fragment bytes match RFC 8200")
	vassert(vhGuards(full, old), "IPv6Fragment.Encode writes nothing outside the header")
	vreach("ipv6frag")
}

func vh_icmp() {
	full, h, old := vhBuf(ICMPv4MinimumSize)
	b := ICMPv4(h)
	t, c, ck := vnU8("t"), vnU8("c"), vnU16("ck")
	b.SetType(ICMPv4Type(t))
	b.SetCode(c)
	b.SetChecksum(ck)
	vassert(uint8(b.Type()) == t && b.Code() == c && b.Checksum() == ck, "ICMPv4 accessors return the set fields")
	vassert(h[0] == t && h[1] == c && vhBE16(h, 2) == ck, "ICMPv4 bytes match RFC 792 (type, code, checksum)")
	vassert(vhGuards(full, old), "ICMPv4 setters write nothing outside")
	full6, h6, old6 := vhBuf(ICMPv6MinimumSize)
	b6 := ICMPv6(h6)
	b6.SetType(ICMPv6Type(t))
	b6.SetCode(c)
	b6.SetChecksum(ck)
	vassert(uint8(b6.Type()) == t && b6.Code() == c && b6.Checksum() == ck, "ICMPv6 accessors return the set fields")
	vassert(h6[0] == t && h6[1] == c && vhBE16(h6, 2) == ck, "ICMPv6 bytes match RFC 4443")
	vassert(vhGuards(full6, old6), "ICMPv6 setters write nothing outside")
	vreach("icmp")
}

func vh_udp() {
	full, h, old := vhBuf(UDPMinimumSize)
	f := UDPFields{SrcPort: vnU16("sp"), DstPort: vnU16("dp"), Length: vnU16("len"), Checksum: vnU16("ck")}
	b := UDP(h)
	b.Encode(&f)
	vassert(b.SourcePort() == f.SrcPort && b.DestinationPort() == f.DstPort && b.Length() == f.Length && b.Checksum() == f.Checksum, "UDP accessors return the encoded fields")
	vassert(vhBE16(h, 0) == f.SrcPort && vhBE16(h, 2) == f.DstPort && vhBE16(h, 4) == f.Length && vhBE16(h, 6) == f.Checksum, "UDP bytes match RFC 768")
	vassert(vhGuards(full, old), "UDP.Encode writes nothing outside the header")
	sp, dp, ck := vnU16("sp2"), vnU16("dp2"), vnU16("ck2")
	b.SetSourcePort(sp)
	b.SetDestinationPort(dp)
	b.SetChecksum(ck)
	vassert(b.SourcePort() == sp && b.DestinationPort() == dp && b.Checksum() == ck && b.Length() == f.Length, "UDP setters round-trip")
	vreach("udp")
}

func vh_tcp() {
	full, h, old := vhBuf(TCPMinimumSize)
	f := TCPFields{SrcPort: vnU16("sp"), DstPort: vnU16("dp"), SeqNum: vnU32("seq"), AckNum: vnU32("ack"), DataOffset: vnU8("doff"),
		Flags: vnU8("flags"), WindowSize: vnU16("wnd"), Checksum: vnU16("ck"), UrgentPointer: vnU16("urg")}
	vassume(f.DataOffset%4 == 0 && f.DataOffset <= 60)
	b := TCP(h)
	b.Encode(&f)
	vassert(b.SourcePort() == f.SrcPort && b.DestinationPort() == f.DstPort && b.SequenceNumber() == f.SeqNum && b.AckNumber() == f.AckNum &&
		b.DataOffset() == f.DataOffset && b.Flags() == f.Flags && b.WindowSize() == f.WindowSize && b.Checksum() == f.Checksum, "TCP accessors return the encoded fields")
	// RFC 793 layout
	vassert(vhBE16(h, 0) == f.SrcPort && vhBE16(h, 2) == f.DstPort && vhBE32(h, 4) == f.SeqNum && vhBE32(h, 8) == f.AckNum &&
		h[12] == (f.DataOffset/4)<<4 && h[13] == f.Flags && vhBE16(h, 14) == f.WindowSize && vhBE16(h, 16) == f.Checksum && vhBE16(h, 18) == f.UrgentPointer, "TCP bytes match RFC 793")
	vassert(vhGuards(full, old), "TCP.Encode writes nothing outside the header")
	vreach("tcp")
}

// --- TCP options ---

func vh_opt_encoders() {
	n := vnChoice("buflen", vparam("optbuf", 12)+1)
	full := vnBytes("buf", n+1)
	guard := full[n]
	b := full[:n:n]
	switch vnChoice("enc", 6) {
	case 0:
		mss := vnU32("mss")
		k := EncodeMSSOption(mss, b)
		vassert(k == 0 || (k == 4 && n >= 4 && b[0] == 2 && b[1] == 4 && vhBE16(b, 2) == uint16(mss)), "EncodeMSSOption writes kind 2 len 4 value, or nothing")
		vassert(vimplies(n >= 4, k == 4), "EncodeMSSOption encodes whenever it fits")
	case 1:
		ws := vnInt("ws")
		vassume(ws >= 0 && ws <= 14)
		k := EncodeWSOption(ws, b)
		vassert(k == 0 || (k == 3 && n >= 3 && b[0] == 3 && b[1] == 3 && int(b[2]) == ws), "EncodeWSOption writes kind 3 len 3 shift, or nothing")
		vassert(vimplies(n >= 3, k == 3), "EncodeWSOption encodes whenever it fits")
	case 2:
		v, e := vnU32("tsval"), vnU32("tsecr")
		k := EncodeTSOption(v, e, b)
		vassert(k == 0 || (k == 10 && n >= 10 && b[0] == 8 && b[1] == 10 && vhBE32(b, 2) == v && vhBE32(b, 6) == e), "EncodeTSOption writes kind 8 len 10 val ecr, or nothing")
		vassert(vimplies(n >= 10, k == 10), "EncodeTSOption encodes whenever it fits")
	case 3:
		k := EncodeSACKPermittedOption(b)
		vassert(k == 0 || (k == 2 && n >= 2 && b[0] == 4 && b[1] == 2), "EncodeSACKPermittedOption writes kind 4 len 2, or nothing")
		vassert(vimplies(n >= 2, k == 2), "EncodeSACKPermittedOption encodes whenever it fits")
	case 4:
		k := EncodeNOP(b)
		vassert(k == 0 || (k == 1 && n >= 1 && b[0] == 1), "EncodeNOP writes one NOP, or nothing")
	case 5:
		off := vnInt("off")
		vassume(off >= 0 && off <= n)
		pad := -off & 3
		vassume(off+pad <= n) // documented precondition: space for the padding
		k := AddTCPOptionPadding(b, off)
		vassert(k == pad && (off+k)%4 == 0, "AddTCPOptionPadding aligns to 4")
		for i := off; i < off+k; i++ {
			vassert(b[i] == 1, "padding bytes are NOPs")
		}
	}
	vassert(full[n] == guard, "option encoders never write past the buffer")
	vreach("optenc")
}

func vh_sack_encode() {
	nb := vnChoice("nblocks", 6)
	blocks := make([]SACKBlock, nb)
	for i := range blocks {
		blocks[i] = SACKBlock{seqnum.Value(vnU32("start")), seqnum.Value(vnU32("end"))}
	}
	n := vnChoice("buflen", vparam("sackbuf", 36)+1)
	full := vnBytes("buf", n+1)
	guard := full[n]
	b := full[:n:n]
	k := EncodeSACKBlocks(blocks, b)
	want := nb
	if want > 4 {
		want = 4
	}
	if n < 2 {
		want = 0
	} else if (n-2)/8 < want {
		want = (n - 2) / 8
	}
	if want == 0 {
		vassert(k == 0, "EncodeSACKBlocks writes nothing when no block fits")
	} else {
		vassert(k == 2+8*want && b[0] == 5 && int(b[1]) == k, "EncodeSACKBlocks writes kind 5 and as many blocks as fit (max 4)")
		for i := 0; i < want; i++ {
			vassert(vhBE32(b, 2+8*i) == uint32(blocks[i].Start) && vhBE32(b, 6+8*i) == uint32(blocks[i].End), "SACK block edges are encoded in order")
		}
		// parse back
		o := ParseTCPOptions(b[:k])
		vassert(len(o.SACKBlocks) == want, "ParseTCPOptions recovers every encoded SACK block")
		for i := 0; i < want; i++ {
			vassert(o.SACKBlocks[i] == blocks[i], "recovered SACK block equals the encoded one")
		}
	}
	vassert(full[n] == guard, "EncodeSACKBlocks never writes past the buffer")
	vreach("sackenc")
}

// every combination of SYN options, encoded in the order the stack uses, parses back
func vh_synopts_roundtrip() {
	buf := make([]byte, 40)
	off := 0
	mss := vnU16("mss")
	vassume(mss != 0)
	off += EncodeMSSOption(uint32(mss), buf[off:])
	ws := -1
	if vnBool("hasws") {
		w := vnU8("ws")
		vassume(w <= 14)
		ws = int(w)
		off += EncodeWSOption(ws, buf[off:])
	}
	ts := vnBool("ts")
	tsv, tse := vnU32("tsval"), vnU32("tsecr")
	if ts {
		off += EncodeTSOption(tsv, tse, buf[off:])
	}
	sp := vnBool("sackperm")
	if sp {
		off += EncodeSACKPermittedOption(buf[off:])
	}
	off += AddTCPOptionPadding(buf, off)
	vassert(off%4 == 0 && off <= 40, "SYN options are a multiple of 4 bytes and fit the header")
	isAck := vnBool("isack")
	o := ParseSynOptions(buf[:off], isAck)
	vassert(o.MSS == mss && o.WS == ws && o.TS == ts && o.SACKPermitted == sp, "ParseSynOptions recovers MSS, WS, TS and SACK-permitted")
	if ts {
		vassert(o.TSVal == tsv && vimplies(isAck, o.TSEcr == tse), "ParseSynOptions recovers the timestamp values")
	}
	vreach("synopts")
}

// TS + SACK as sent on established connections parse back
func vh_tcpopts_roundtrip() {
	buf := make([]byte, 40)
	off := 0
	ts := vnBool("ts")
	tsv, tse := vnU32("tsval"), vnU32("tsecr")
	if ts {
		off += EncodeNOP(buf[off:])
		off += EncodeNOP(buf[off:])
		off += EncodeTSOption(tsv, tse, buf[off:])
	}
	nb := vnChoice("nblocks", 4)
	blocks := make([]SACKBlock, nb)
	for i := range blocks {
		blocks[i] = SACKBlock{seqnum.Value(vnU32("start")), seqnum.Value(vnU32("end"))}
	}
	if nb > 0 {
		off += EncodeNOP(buf[off:])
		off += EncodeNOP(buf[off:])
		off += EncodeSACKBlocks(blocks, buf[off:])
	}
	off += AddTCPOptionPadding(buf, off)
	vassert(off%4 == 0 && off <= 40, "options are a multiple of 4 bytes and fit the header")
	o := ParseTCPOptions(buf[:off])
	vassert(o.TS == ts && vimplies(ts, o.TSVal == tsv && o.TSEcr == tse), "ParseTCPOptions recovers the timestamp option")
	vassert(len(o.SACKBlocks) == nb, "ParseTCPOptions recovers the SACK blocks")
	for i := 0; i < nb; i++ {
		vassert(o.SACKBlocks[i] == blocks[i], "recovered SACK block equals the encoded one")
	}
	vreach("tcpopts")
}

// parsers on arbitrary bytes: no out-of-range access, termination, sane results
func vh_parse_syn_arbitrary() {
	n := vnChoice("n", vparam("optlen", 10)+1)
	b := vnBytes("opt", n)
	o := ParseSynOptions(b, vnBool("isack"))
	vassert(o.MSS >= 1 && o.WS >= -1 && o.WS <= 14, "ParseSynOptions returns MSS >= 1 and WS in [-1,14] for any input")
	vreach("parsesyn")
}

func vh_parse_opts_arbitrary() {
	n := vnChoice("n", vparam("optlen", 10)+1)
	b := vnBytes("opt", n)
	o := ParseTCPOptions(b)
	vassert(len(o.SACKBlocks) <= (n-2)/8 || len(o.SACKBlocks) == 0, "ParseTCPOptions never invents SACK blocks beyond the input")
	vreach("parseopts")
}

// --- checksum ---

// RFC 1071 reference: 16-bit one's-complement (end-around-carry) addition.
func vhOnesAdd(a, b uint16) uint16 {
	s := uint32(a) + uint32(b)
	return uint16(s&0xffff) + uint16(s>>16) // carry is 0 or 1; the sum cannot overflow again
}

func vh_combine() {
	a, b := vnU16("a"), vnU16("b")
	c := ChecksumCombine(a, b)
	vassert(c == vhOnesAdd(a, b), "ChecksumCombine is end-around-carry addition")
	vassert(c == ChecksumCombine(b, a), "commutative")
	vassert((c == 0) == (a == 0 && b == 0), "the sum is zero only for 0+0")
	// congruent to a+b modulo 65535
	vassert((uint32(c)+65535-(uint32(a)+uint32(b))%65535)%65535 == 0, "ChecksumCombine(a,b) = a+b (mod 65535)")
	x := vnU16("x")
	vassert(ChecksumCombine(ChecksumCombine(a, b), x) == ChecksumCombine(a, ChecksumCombine(b, x)), "associative")
	vassert(ChecksumCombine(a, ^a) == 0xffff, "x + ~x = 0xffff")
	vreach("combine")
}

// fold of the 32-bit accumulator as done at the end of Checksum
func vhFold(v uint32) uint16 { return ChecksumCombine(uint16(v), uint16(v>>16)) }

// loop-cut lemma on the real loop of Checksum: one arbitrary iteration maps the folded
// accumulator F(v) to F(v) (+) word_i, provided the accumulator bound holds, and the bound
// v <= 0xffff + 0xff00 + 0xffff*(i/2) is inductive (no overflow up to 65535 bytes).
var vhCkBuf []byte
var vhCkPrevI int
var vhCkPrevV uint32

func vinv_cksum(i int, v uint32) bool {
	return i >= 0 && i%2 == 0 && i <= len(vhCkBuf) && uint64(v) <= 0xffff+0xff00+0xffff*uint64(i/2)
}

func vstep_cksum(i int, i_next int, v uint32, v_next uint32) bool {
	w := uint16(vhCkBuf[i])<<8 | uint16(vhCkBuf[i+1])
	return i_next == i+2 && vhFold(v_next) == vhOnesAdd(vhFold(v), w)
}

func vh_cksum_step() {
	n := vparam("cklen", 8)
	vhCkBuf = vnBytes("buf", n)
	c := Checksum(vhCkBuf, vnU16("init"))
	_ = c
	vreach("cksum-exit")
}

// unrolled cross-check of the real function against the RFC 1071 word-sum for every
// length 0..N and every initial value
func vhRefSum(b []byte, init uint16) uint16 {
	s := init
	i := 0
	for ; i+1 < len(b); i += 2 {
		s = vhOnesAdd(s, uint16(b[i])<<8|uint16(b[i+1]))
	}
	if i < len(b) {
		s = vhOnesAdd(s, uint16(b[i])<<8)
	}
	return s
}

func vh_cksum_unrolled() {
	n := vnChoice("n", vparam("ckmax", 7)+1)
	b := vnBytes("buf", n)
	init := vnU16("init")
	vassert(Checksum(b, init) == vhRefSum(b, init), "Checksum equals the RFC 1071 one's-complement sum (unrolled)")
	vreach("cksum-unrolled")
}

// a packet carrying the complemented sum verifies (sums to 0xffff)
func vh_cksum_verifies() {
	n := 2 * (1 + vnChoice("words", vparam("ckwords", 3)))
	b := vnBytes("buf", n)
	pos := 2 * vnChoice("pos", n/2)
	b[pos], b[pos+1] = 0, 0
	init := vnU16("init")
	c := ^Checksum(b, init)
	b[pos], b[pos+1] = byte(c>>8), byte(c)
	vassert(Checksum(b, init) == 0xffff, "a buffer carrying the complemented sum verifies")
	vreach("cksum-verifies")
}

func vh_pseudo() {
	src, dst := vnString("src", 4), vnString("dst", 4)
	p := vnU8("proto")
	got := PseudoHeaderChecksum(tcpip.TransportProtocolNumber(p), tcpip.Address(src), tcpip.Address(dst))
	ref := vhRefSum([]byte(src+dst+string([]byte{0, p})), 0)
	vassert(got == ref, "PseudoHeaderChecksum sums src, dst, zero and protocol (RFC 793 pseudo header without length)")
	vreach("pseudo")
}

// vhWindow returns n bytes that are symbolic inside [start,start+w) and fixed elsewhere
// (checksum arithmetic over more than ~8 symbolic bytes does not finish in any back end).
func vhWindow(name string, n, start int) []byte {
	b := make([]byte, n)
	w := vparam("win", 4)
	sym := vnBytes(name, w)
	for i := range b {
		if i >= start && i < start+w {
			b[i] = sym[i-start]
		} else {
			b[i] = byte(0xa5 + 37*i + vparam("fill", 0))
		}
	}
	return b
}

func vh_ipv4_cksum() {
	h := vhWindow("hdr", 20, 4*vnChoice("win", 5))
	h[0] = 0x45
	h[10], h[11] = 0, 0
	b := IPv4(h)
	vassert(b.CalculateChecksum() == vhRefSum(h, 0), "IPv4.CalculateChecksum is the RFC 1071 sum of the 20 header bytes")
	vreach("ipv4-cksum")
	// a header with options: the sum covers all HeaderLength() bytes (4 symbolic option bytes)
	o := make([]byte, 24)
	copy(o, h)
	o[0] = 0x46
	copy(o[20:], vnBytes("opts", 4))
	vassert(IPv4(o).CalculateChecksum() == vhRefSum(o, 0), "with IP options the header checksum covers the options too")
	vreach("ipv4-cksum-options")
}

func vh_udp_tcp_cksum() {
	h := vnBytes("hdr", 8)
	part, tl := vnU16("partial"), vnU16("totallen")
	got := UDP(h).CalculateChecksum(part, tl)
	ref := vhRefSum(h, vhOnesAdd(part, tl))
	vassert(got == ref, "UDP.CalculateChecksum = partial (+) length (+) header words")
	t := vhWindow("tcphdr", 20, 4*vnChoice("win", 5))
	t[12] = 5 << 4
	// symbolic partial sum and length together with symbolic header bytes do not finish in
	// any back end for the 20-byte header; the initial values are fixed here (the UDP case
	// above keeps them symbolic for the same two-step code)
	cp, ct := uint16(0x1234+vparam("fill", 0)), uint16(0xfedc)
	gott := TCP(t).CalculateChecksum(cp, ct)
	vassert(gott == vhRefSum(t, vhOnesAdd(cp, ct)), "TCP.CalculateChecksum = partial (+) length (+) header words")
	vreach("l4-cksum")
}

// generic-position step: the 8-byte window sits at an arbitrary depth (vhCkBase words
// already summed) of a buffer of up to 65534 bytes.
var vhCkBase uint32

func vinv_cksum_generic(i int, v uint32) bool {
	return i >= 0 && i%2 == 0 && i <= len(vhCkBuf) && uint64(v) <= 0xffff+0xff00+0xffff*(uint64(vhCkBase)+uint64(i/2))
}

func vstep_cksum_generic(i int, i_next int, v uint32, v_next uint32) bool {
	w := uint16(vhCkBuf[i])<<8 | uint16(vhCkBuf[i+1])
	noOverflow := uint64(v)+uint64(w) == uint64(v_next)
	bound := uint64(v_next) <= 0xffff+0xff00+0xffff*(uint64(vhCkBase)+uint64(i_next/2))
	return i_next == i+2 && noOverflow && bound && vhFold(v_next) == vhOnesAdd(vhFold(v), w)
}

func vh_cksum_step_generic() {
	n := vparam("cklen", 8)
	vhCkBuf = vnBytes("buf", n)
	vhCkBase = vnU32("base")
	vassume(vhCkBase <= 32767-uint32(n/2))
	Checksum(vhCkBuf, vnU16("init"))
	vreach("cksum-exit")
}

// DNS query header (RFC 1035 4.1.1) and name-length scan
func vh_dns() {
	l1 := vnChoice("l1", 4)
	l2 := vnChoice("l2", 3)
	h := vnBytes("dns", 12+l1+l2+3)
	d := DNS(h)
	id := vnU16("id")
	d.Setheader(id)
	qd, an, ns, ar := vnU16("qd"), vnU16("an"), vnU16("ns"), vnU16("ar")
	d.SetCount(qd, an, ns, ar)
	vassert(d.GetId() == id && d.GetQDCount() == qd && d.GetANCount() == an && d.GetNSCount() == ns && d.GetARCount() == ar, "DNS header accessors return the encoded fields")
	vassert(vhBE16(h, 0) == id && vhBE16(h, 2) == 0x0100 && vhBE16(h, 4) == qd && vhBE16(h, 6) == an && vhBE16(h, 8) == ns && vhBE16(h, 10) == ar, "DNS header bytes match RFC 1035 (standard query, RD set)")
	// name: label(l1) label(l2) root
	want := 1
	p := 12
	if l1 > 0 {
		h[p] = byte(l1)
		p += 1 + l1
		want += 1 + l1
		if l2 > 0 {
			h[p] = byte(l2)
			p += 1 + l2
			want += 1 + l2
		}
	}
	h[p] = 0
	for i := 13; i < p; i++ {
		vassume(h[i] != 0 || i == p) // label bytes are arbitrary, but the scan treats a zero length as the end
	}
	if l1 > 0 {
		h[12] = byte(l1)
		if l2 > 0 {
			h[12+1+l1] = byte(l2)
		}
	}
	vassert(d.GetDomainLen() == want, "GetDomainLen is the encoded name length including the root label")
	vreach("dns")
}
