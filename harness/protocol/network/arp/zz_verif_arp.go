package arp

import (
	"github.com/brewlin/net-protocol/pkg/buffer"
	tcpip "github.com/brewlin/net-protocol/protocol"
	"github.com/brewlin/net-protocol/stack"
)

const (
	vhMAC  = tcpip.LinkAddress("\x02\x00\x00\x00\x00\x01")
	vhPeer = tcpip.LinkAddress("\x02\x00\x00\x00\x00\x02")
)

func vhSame(a, b []byte) bool {
	if len(a) != len(b) {
		return false
	}
	var d byte
	for i := range a {
		d |= a[i] ^ b[i]
	}
	return d == 0
}

func vhOwnKey(a []byte) uint64 {
	return uint64(a[0])<<24 | uint64(a[1])<<16 | uint64(a[2])<<8 | uint64(a[3])
}

// C12-O1 / C07: an arbitrary ARP-sized (or shorter) packet
func vh_arp_packet() {
	s := stack.VHStack()
	link := &stack.VHLink{Mtu: 1500, Addr: vhMAC}
	nic := stack.VHNIC(s, 1, link)
	cache := &stack.VHLinkCache{Own: func(a tcpip.Address) bool { return vufBool("own", vhOwnKey([]byte(a))) }}
	e := &endpoint{nicid: 1, addr: ProtocolAddress, linkEP: link, linkAddrCache: cache}
	r := stack.VHRoute(nic, e, ProtocolNumber, ProtocolAddress, "", nil)
	r.RemoteLinkAddress = vhPeer
	n := []int{0, 27, 28, 30}[vnChoice("len", 4)]
	b := vnBytes("arp", n)
	e.HandlePacket(&r, buffer.View(b).ToVectorisedView())
	valid := n >= 28 && b[0] == 0 && b[1] == 1 && b[2] == 8 && b[3] == 0 && b[4] == 6 && b[5] == 4
	if !valid {
		vassert(len(link.Sent) == 0 && len(cache.Added) == 0, "a malformed or non-Ethernet/IPv4 ARP packet has no effect")
		vreach("invalid")
		return
	}
	op := uint16(b[6])<<8 | uint16(b[7])
	sha, spa, tpa := b[8:14], b[14:18], b[24:28]
	switch op {
	case 1:
		own := vufBool("own", vhOwnKey(tpa))
		if !own {
			vassert(len(link.Sent) == 0 && len(cache.Added) == 0, "a request for someone else's address is neither answered nor learnt from")
			vreach("foreign")
			return
		}
		vassert(len(link.Sent) == 1, "a request for an own address is answered exactly once")
		f := link.Sent[0]
		h := f.Hdr
		vassert(len(h) == 28 && len(f.Payload) == 0 && f.Proto == ProtocolNumber, "the answer is one ARP packet")
		vassert(h[0] == 0 && h[1] == 1 && h[2] == 8 && h[3] == 0 && h[4] == 6 && h[5] == 4 && h[6] == 0 && h[7] == 2, "Ethernet/IPv4 ARP reply (op 2)")
		vassert(vhSame(h[8:14], []byte(vhMAC)), "sender hardware address = this interface's link address")
		vassert(vhSame(h[14:18], tpa), "sender protocol address = the requested target")
		vassert(vhSame(h[18:24], sha) && vhSame(h[24:28], spa), "target fields = the requester's addresses")
		vassert(f.RemoteLink == vhPeer, "the reply goes to the requester")
		vassert(len(cache.Added) == 1 && cache.Added[0].Addr == tcpip.Address(spa) && cache.Added[0].Link == tcpip.LinkAddress(sha), "the sender's mapping is learnt from a request addressed to us")
		vreach("answered")
	case 2:
		vassert(len(link.Sent) == 0, "a reply is not answered")
		vassert(len(cache.Added) == 1 && cache.Added[0].Addr == tcpip.Address(spa) && cache.Added[0].Link == tcpip.LinkAddress(sha), "the sender's mapping is learnt from a reply")
		vreach("reply")
	default:
		vassert(len(link.Sent) == 0 && len(cache.Added) == 0, "other operations are ignored")
		vreach("otherop")
	}
}

// C12-O2
func vh_arp_request() {
	link := &stack.VHLink{Mtu: 1500, Addr: vhMAC}
	p := &protocol{}
	addr, local := tcpip.Address(vnString("addr", 4)), tcpip.Address(vnString("local", 4))
	err := p.LinkAddressRequest(addr, local, link)
	vassert(err == nil && len(link.Sent) == 1, "a resolution request emits one packet")
	f := link.Sent[0]
	h := f.Hdr
	vassert(f.RemoteLink == tcpip.LinkAddress("\xff\xff\xff\xff\xff\xff") && f.Proto == ProtocolNumber, "the request is broadcast")
	vassert(len(h) == 28 && h[0] == 0 && h[1] == 1 && h[2] == 8 && h[3] == 0 && h[4] == 6 && h[5] == 4 && h[6] == 0 && h[7] == 1, "Ethernet/IPv4 ARP request (op 1)")
	vassert(vhSame(h[8:14], []byte(vhMAC)) && vhSame(h[14:18], []byte(local)) && vhSame(h[24:28], []byte(addr)), "sender = this interface, target = the address being resolved")
	la, ok := p.ResolveStaticAddress("\xff\xff\xff\xff")
	vassert(ok && la == tcpip.LinkAddress("\xff\xff\xff\xff\xff\xff"), "the broadcast address resolves statically")
	_, ok2 := p.ResolveStaticAddress(addr)
	vassert(!ok2 || addr == "\xff\xff\xff\xff", "nothing else resolves statically")
	vreach("request")
}
