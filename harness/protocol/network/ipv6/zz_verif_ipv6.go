package ipv6

import (
	"github.com/brewlin/net-protocol/pkg/buffer"
	tcpip "github.com/brewlin/net-protocol/protocol"
	"github.com/brewlin/net-protocol/protocol/header"
	"github.com/brewlin/net-protocol/stack"
)

type vhEnv struct {
	e     *endpoint
	disp  *stack.VHDisp
	link  *stack.VHLink
	cache *stack.VHLinkCache
	r     stack.Route
}

const (
	vhLocal  = tcpip.Address("\xfe\x80\x00\x00\x00\x00\x00\x00\x00\x00\x00\x00\x00\x00\x00\x01")
	vhRemote = tcpip.Address("\xfe\x80\x00\x00\x00\x00\x00\x00\x00\x00\x00\x00\x00\x00\x00\x02")
	vhMAC    = tcpip.LinkAddress("\x02\x00\x00\x00\x00\x01")
	vhPeer   = tcpip.LinkAddress("\x02\x00\x00\x00\x00\x02")
)

func vhNewEnv() *vhEnv {
	s := stack.VHStack()
	link := &stack.VHLink{Mtu: 1500, Addr: vhMAC}
	nic := stack.VHNIC(s, 1, link)
	disp := &stack.VHDisp{}
	cache := &stack.VHLinkCache{}
	e := &endpoint{nicid: 1, id: stack.NetworkEndpointID{LocalAddress: vhLocal}, linkEP: link, linkAddrCache: cache, dispatcher: disp}
	env := &vhEnv{e: e, disp: disp, link: link, cache: cache}
	env.r = stack.VHRoute(nic, e, ProtocolNumber, vhLocal, vhRemote, nil)
	env.r.RemoteLinkAddress = vhPeer
	return env
}

func vhSame(a, b []byte) bool {
	if len(a) != len(b) {
		return false
	}
	var d byte
	for i := range a {
		d |= a[i] ^ b[i]
	}
	return d == 0
}

func vhPkt(b []byte, split int) buffer.VectorisedView {
	if split <= 0 || split >= len(b) {
		return buffer.View(b).ToVectorisedView()
	}
	return buffer.NewVectorisedView(len(b), []buffer.View{buffer.View(b[:split]), buffer.View(b[split:])})
}

func vhOnes(a, b uint16) uint16 {
	s := uint32(a) + uint32(b)
	return uint16(s&0xffff) + uint16(s>>16)
}
func vhSum(b []byte, init uint16) uint16 {
	s := init
	i := 0
	for ; i+1 < len(b); i += 2 {
		s = vhOnes(s, uint16(b[i])<<8|uint16(b[i+1]))
	}
	if i < len(b) {
		s = vhOnes(s, uint16(b[i])<<8)
	}
	return s
}

// ICMPv6 checksum per RFC 4443 2.3 / RFC 8200 8.1 over src, dst, length, next header, message
func vhICMP6Sum(src, dst tcpip.Address, msg []byte) uint16 {
	ps := append([]byte{}, []byte(src)...)
	ps = append(ps, []byte(dst)...)
	l := len(msg)
	ps = append(ps, byte(l>>24), byte(l>>16), byte(l>>8), byte(l), 0, 0, 0, 58)
	m := append([]byte{}, msg...)
	m[2], m[3] = 0, 0
	return ^vhSum(append(ps, m...), 0)
}

// ---------- C13: ICMPv6 echo ----------
func vh_echo6() {
	env := vhNewEnv()
	n := vnChoice("len", vparam("maxlen", 3)+1)
	req := make([]byte, 8+n)
	req[0] = 128
	req[1] = vnU8("code")
	req[2], req[3] = vnU8("ck0"), vnU8("ck1")
	copy(req[4:8], vnBytes("identseq", 4))
	copy(req[8:], vnBytes("payload", n))
	split := 0
	if n >= 2 && vnBool("split") {
		split = 8 + vnChoice("at", n) // anywhere from the end of the header to inside the payload
	}
	env.e.handleICMP(&env.r, vhPkt(append([]byte{}, req...), split))
	vassert(len(env.link.Sent) == 1, "an echo request is answered by exactly one packet")
	f := env.link.Sent[0]
	h := f.Hdr
	vassert(len(h) == 48 && h[0]>>4 == 6 && h[6] == 58, "the reply is ICMPv6 in an IPv6 header")
	vassert(int(h[4])<<8|int(h[5]) == 8+n, "the IPv6 payload length covers the ICMP message")
	vassert(vhSame(h[8:24], []byte(vhLocal)) && vhSame(h[24:40], []byte(vhRemote)), "sent from the address that was pinged to the requester")
	ic := h[40:]
	vassert(ic[0] == 129 && ic[1] == req[1], "type 129 (echo reply), same code")
	vassert(vhSame(ic[4:8], req[4:8]) && vhSame(f.Payload, req[8:]), "identifier, sequence number and payload are mirrored")
	msg := append(append([]byte{}, ic...), f.Payload...)
	ck := uint16(ic[2])<<8 | uint16(ic[3])
	vassert(ck == vhICMP6Sum(vhLocal, vhRemote, msg), "the ICMPv6 checksum is valid for every split of the payload into views")
	vreach("answered")
}

func vh_icmp6_other() {
	env := vhNewEnv()
	env.cache.Own = func(a tcpip.Address) bool { return false }
	n := vnChoice("len", 10)
	b := vnBytes("icmp", n)
	vassume(n == 0 || b[0] != 128)
	env.e.handleICMP(&env.r, vhPkt(b, 0))
	for _, f := range env.link.Sent {
		vassert(len(f.Hdr) < 41 || f.Hdr[40] != 129, "only echo requests are answered with echo replies")
	}
	vreach("other")
}

// ---------- C12: neighbour discovery ----------
func vh_ndp_solicit() {
	env := vhNewEnv()
	env.cache.Own = func(a tcpip.Address) bool { return vufBool("own", uint64(a[15])|uint64(a[14])<<8|uint64(a[0])<<16) }
	n := []int{23, 24, 32}[vnChoice("len", 3)] // around the minimum size (4+4+16)
	b := vnBytes("ns", n)
	b[0] = 135
	env.e.handleICMP(&env.r, vhPkt(b, 0))
	if n < 24 {
		vassert(len(env.link.Sent) == 0 && len(env.cache.Added) == 0, "a truncated solicitation is ignored")
		vreach("truncated")
		return
	}
	target := tcpip.Address(b[8:24])
	own := vufBool("own", uint64(target[15])|uint64(target[14])<<8|uint64(target[0])<<16)
	if !own {
		vassert(len(env.link.Sent) == 0 && len(env.cache.Added) == 0, "a solicitation for someone else's address is neither answered nor learnt from")
		vreach("foreign")
		return
	}
	vassert(len(env.link.Sent) == 1, "a solicitation for an own address is answered once")
	f := env.link.Sent[0]
	h := f.Hdr
	vassert(len(h) == 72 && h[6] == 58 && h[40] == 136, "the answer is a neighbour advertisement")
	vassert(vhSame(h[8:24], []byte(target)) && vhSame(h[24:40], []byte(vhRemote)), "from the solicited address to the requester")
	vassert(vhSame(h[48:64], []byte(target)), "the advertisement names the solicited target")
	vassert(h[64] == 2 && h[65] == 1 && vhSame(h[66:72], []byte(vhMAC)), "and carries this interface's link address")
	vassert(f.RemoteLink == vhPeer, "it is addressed to the requester's link address")
	vassert(len(env.cache.Added) == 1 && env.cache.Added[0].Addr == vhRemote && env.cache.Added[0].Link == vhPeer, "the requester's mapping is learnt from a request addressed to us")
	vreach("answered")
}

// The advertisement's checksum is computed over the pseudo-header it is SENT with (source =
// the solicited target), also when the solicitation arrived on the solicited-node multicast
// address (where the route's local address is that multicast address until it is rewritten).
func vh_ndp_solicit_cksum() {
	env := vhNewEnv()
	env.cache.Own = func(a tcpip.Address) bool { return a == vhLocal }
	if vnBool("multicast") {
		env.r.LocalAddress = header.SolicitedNodeAddr(vhLocal)
		vreach("to-multicast")
	}
	b := make([]byte, 24)
	b[0] = 135
	b[4], b[5] = vnU8("rsv0"), vnU8("rsv1")
	copy(b[8:], []byte(vhLocal))
	env.e.handleICMP(&env.r, vhPkt(b, 0))
	vassert(len(env.link.Sent) == 1, "answered once")
	h := env.link.Sent[0].Hdr
	vassert(len(h) == 72 && vhSame(h[8:24], []byte(vhLocal)) && vhSame(h[24:40], []byte(vhRemote)), "from the target address to the requester")
	msg := append([]byte{}, h[40:]...)
	ck := uint16(msg[2])<<8 | uint16(msg[3])
	msg[2], msg[3] = 0, 0
	vassert(ck == vhICMP6Sum(tcpip.Address(h[8:24]), tcpip.Address(h[24:40]), msg), "the ICMPv6 checksum of the advertisement verifies against the addresses in its own IPv6 header")
	vreach("na-cksum")
}

func vh_ndp_advert() {
	env := vhNewEnv()
	n := 32
	b := vnBytes("na", n)
	b[0] = 136
	env.e.handleICMP(&env.r, vhPkt(b, 0))
	target := tcpip.Address(b[8:24])
	vassert(len(env.link.Sent) == 0, "an advertisement is not answered")
	vassert(len(env.cache.Added) >= 1 && env.cache.Added[0].Addr == target && env.cache.Added[0].Link == vhPeer, "the advertised mapping is learnt")
	for _, a := range env.cache.Added {
		vassert(a.Link == vhPeer && (a.Addr == target || a.Addr == vhRemote), "only the sender's link address is learnt, for the target and the sender")
	}
	vreach("learnt")
}

func vh_ndp_request() {
	link := &stack.VHLink{Mtu: 1500, Addr: vhMAC}
	p := &protocol{}
	addr := tcpip.Address(vnString("addr", 16))
	local := tcpip.Address(vnString("local", 16))
	err := p.LinkAddressRequest(addr, local, link)
	vassert(err == nil && len(link.Sent) == 1, "a resolution request emits one packet")
	f := link.Sent[0]
	h := f.Hdr
	vassert(f.RemoteLink == tcpip.LinkAddress("\xff\xff\xff\xff\xff\xff"), "the request is broadcast at the link layer")
	vassert(len(h) == 72 && h[6] == 58 && h[40] == 135, "it is a neighbour solicitation")
	vassert(vhSame(h[8:24], []byte(local)), "from the local address")
	// RFC 4291 2.7.1, written out independently: ff02::1:ffXX:XXXX with the low 24 bits of the target
	sn := append([]byte{0xff, 0x02, 0, 0, 0, 0, 0, 0, 0, 0, 0, 0x01, 0xff}, addr[13], addr[14], addr[15])
	vassert(vhSame(h[24:40], sn), "to the target's solicited-node multicast address")
	vassert(vhSame(h[48:64], []byte(addr)) && h[64] == 1 && h[65] == 1 && vhSame(h[66:72], []byte(vhMAC)), "naming the target and carrying the source link address")
	vassert(int(h[4])<<8|int(h[5]) == 32, "payload length 32")
	vreach("request")
}

// ---------- C07: arbitrary inbound IPv6 packets do not panic ----------
func vh_parse6_nopanic() {
	env := vhNewEnv()
	env.cache.Own = func(a tcpip.Address) bool { return vufBool("own", uint64(a[15])) }
	n := vnChoice("len", 3)
	total := []int{39, 48, 80}[n]
	b := vnBytes("pkt", total)
	if total >= 40 {
		// keep the address space small: only the next-header, length and ICMP bytes matter
		copy(b[8:24], []byte(vhRemote))
		copy(b[24:40], []byte(vhLocal))
	}
	env.e.HandlePacket(&env.r, vhPkt(b, vnChoice("split", 2)*44))
	vreach("parsed")
}

// ---------- C06: emitted IPv6 packets ----------
func vh_emit_ipv6() {
	env := vhNewEnv()
	n := vnChoice("hdrlen", 3) * 8
	m := vnChoice("paylen", 4)
	hdr := buffer.NewPrependable(40 + n)
	th := hdr.Prepend(n)
	copy(th, vnBytes("thdr", n))
	payload := vnBytes("payload", m)
	var vv buffer.VectorisedView
	if m > 0 {
		vv = buffer.View(payload).ToVectorisedView()
	}
	ttl, proto := vnU8("ttl"), vnU8("proto")
	err := env.e.WritePacket(&env.r, hdr, vv, tcpip.TransportProtocolNumber(proto), ttl)
	vassert(err == nil && len(env.link.Sent) == 1, "one packet is handed to the link layer")
	f := env.link.Sent[0]
	h := f.Hdr
	vassert(f.Proto == ProtocolNumber && len(h) == 40+n && h[0]>>4 == 6, "IPv6 header in front of the transport header")
	vassert(int(h[4])<<8|int(h[5]) == n+m && h[6] == proto && h[7] == ttl, "payload length = transport header + payload; next header and hop limit as requested")
	vassert(vhSame(h[8:24], []byte(vhLocal)) && vhSame(h[24:40], []byte(vhRemote)), "source = the route's local address, destination = its remote address")
	vreach("ipv6")
}

// C07: ICMPv6 error messages quoting an arbitrary (possibly truncated) packet
func vh_icmp6_error() {
	env := vhNewEnv()
	extra := vnChoice("quoted", 12) // bytes after the quoted IPv6 header: 0..11
	n := 8 + 40 + extra
	if vnBool("truncated") {
		n = 8 + vnChoice("hdrpart", 40)
	}
	b := vnBytes("err", n)
	b[0] = []byte{1, 2}[vnChoice("type", 2)] // destination unreachable / packet too big
	if n >= 48 {
		copy(b[8+8:8+24], []byte(vhLocal)) // the quoted packet was sent by us (otherwise dropped early)
	}
	env.e.handleICMP(&env.r, vhPkt(b, vnChoice("split", 2)*48))
	vreach("icmp6-error")
}
