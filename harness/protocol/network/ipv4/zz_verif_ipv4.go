package ipv4

import (
	"time"

	"github.com/brewlin/net-protocol/pkg/buffer"
	tcpip "github.com/brewlin/net-protocol/protocol"
	"github.com/brewlin/net-protocol/protocol/header"
	"github.com/brewlin/net-protocol/protocol/network/fragmentation"
	"github.com/brewlin/net-protocol/stack"
)

type vhEnv struct {
	e    *endpoint
	disp *stack.VHDisp
	link *stack.VHLink
	r    stack.Route
}

const (
	vhLocal  = tcpip.Address("\x0a\x00\x00\x01")
	vhRemote = tcpip.Address("\x0a\x00\x00\x02")
)

func vhNewEnv() *vhEnv {
	s := stack.VHStack()
	link := &stack.VHLink{Mtu: 1500, Addr: tcpip.LinkAddress("\x02\x00\x00\x00\x00\x01")}
	nic := stack.VHNIC(s, 1, link)
	disp := &stack.VHDisp{}
	e := &endpoint{
		nicid:         1,
		id:            stack.NetworkEndpointID{LocalAddress: vhLocal},
		linkEP:        link,
		dispatcher:    disp,
		echoRequests:  make(chan echoRequest, 10),
		fragmentation: fragmentation.NewFragmentation(fragmentation.HighFragThreshold, fragmentation.LowFragThreshold, time.Hour),
	}
	env := &vhEnv{e: e, disp: disp, link: link}
	env.r = stack.VHRoute(nic, e, ProtocolNumber, vhLocal, vhRemote, nil)
	return env
}

func vhSame(a, b []byte) bool {
	if len(a) != len(b) {
		return false
	}
	var d byte
	for i := range a {
		d |= a[i] ^ b[i]
	}
	return d == 0
}

// vhPkt wraps bytes into 1 or 2 views (split at an arbitrary point inside the packet).
func vhPkt(b []byte, split int) buffer.VectorisedView {
	if split <= 0 || split >= len(b) {
		return buffer.View(b).ToVectorisedView()
	}
	return buffer.NewVectorisedView(len(b), []buffer.View{buffer.View(b[:split]), buffer.View(b[split:])})
}

// C07-O2 / C08-O4: no sequence of two arbitrary (fragment) packets panics the network
// layer; afterwards the fragmentation accounting is still sane.
func vh_frag_nopanic() {
	vclockFreeze()
	env := vhNewEnv()
	n := vparam("payload", 8)
	var prev []byte
	for i := 0; i < vparam("pkts", 2); i++ {
		b := vnBytes("pkt", 20+n)
		vassume(b[0] == 0x45) // standard header (options: see vh_parse_nopanic)
		vassume(b[9] == 17)   // not ICMP (see the ICMP obligations)
		if prev != nil {
			// same datagram key (id, protocol, addresses) as the previous packet, so that both
			// land in one reassembler; different keys are covered by the separation obligation
			copy(b[4:6], prev[4:6])
			b[9] = prev[9]
			copy(b[12:20], prev[12:20])
		}
		prev = b
		env.e.HandlePacket(&env.r, vhPkt(b, 0))
	}
	vreach("two-fragments")
}

// any single packet, any header length / total length / flags, 1-2 views: no panic
func vh_parse_nopanic() {
	vclockFreeze()
	env := vhNewEnv()
	n := vnChoice("len", vparam("maxlen", 28)+1)
	b := vnBytes("pkt", n)
	vassume(n < 10 || b[9] != 1) // ICMP: separate obligation
	split := vnChoice("split", 3) * 10
	env.e.HandlePacket(&env.r, vhPkt(b, split))
	vreach("parsed")
}

func vhHeader(id uint16, flags uint8, off uint16, plen int, proto uint8) []byte {
	b := make([]byte, 20+plen)
	ip := header.IPv4(b)
	ip.Encode(&header.IPv4Fields{IHL: 20, TotalLength: uint16(20 + plen), ID: id, Flags: flags, FragmentOffset: off, TTL: 64, Protocol: proto,
		SrcAddr: vhRemote, DstAddr: vhLocal})
	return b
}

// C08-O4: a 16-byte datagram sent as two 8-byte fragments through the real
// ipv4.HandlePacket (in either order, optionally with a duplicate) reaches the transport
// dispatcher exactly once, byte for byte; one fragment alone delivers nothing.
func vh_frag_e2e() {
	vclockFreeze()
	env := vhNewEnv()
	D := vnBytes("D", 16)
	id := vnU16("id")
	f0 := vhHeader(id, header.IPv4FlagMoreFragments, 0, 8, 17)
	copy(f0[20:], D[:8])
	f1 := vhHeader(id, 0, 8, 8, 17)
	copy(f1[20:], D[8:])
	order := vnChoice("order", 4)
	first, second := f0, f1
	if order == 1 || order == 3 {
		first, second = f1, f0
	}
	env.e.HandlePacket(&env.r, vhPkt(first, vnChoice("split", 2)*24))
	vassert(len(env.disp.Pkts) == 0, "an incomplete fragment set delivers nothing")
	if order >= 2 {
		env.e.HandlePacket(&env.r, vhPkt(append([]byte{}, first...), 0)) // duplicate
		vassert(len(env.disp.Pkts) == 0, "a duplicate fragment delivers nothing")
	}
	env.e.HandlePacket(&env.r, vhPkt(second, 0))
	vassert(len(env.disp.Pkts) == 1, "the complete set is handed to the transport layer exactly once")
	vassert(env.disp.Pkts[0].Proto == 17 && vhSame(env.disp.Pkts[0].Payload, D), "the reassembled payload is byte-for-byte the original datagram")
	vreach("e2e")
}

// an unfragmented packet is delivered as is (payload = bytes after the header, capped to total length)
func vh_unfragmented() {
	env := vhNewEnv()
	n := vnChoice("plen", 6)
	trailer := vnChoice("trailer", 3) // link-layer padding after the IP datagram
	b := vnBytes("pkt", 20+n+trailer)
	h := vhHeader(vnU16("id"), 0, 0, n, 17)
	copy(b[:20], h[:20])
	want := append([]byte{}, b[20:20+n]...)
	// link endpoints hand up packets whose first view holds at least the IP header
	env.e.HandlePacket(&env.r, vhPkt(b, 20+vnChoice("split", 4)))
	vassert(len(env.disp.Pkts) == 1 && vhSame(env.disp.Pkts[0].Payload, want), "an unfragmented datagram is delivered with exactly its payload (padding stripped)")
	vreach("unfrag")
}

// IP options and link-layer padding together: the payload handed up (whole datagram or
// fragment) is exactly TotalLength - HeaderLength bytes after the options.
func vh_options_padding() {
	vclockFreeze()
	env := vhNewEnv()
	optWords := 1 + vnChoice("optwords", 2) // 4 or 8 bytes of options
	hlen := 20 + 4*optWords
	n := 8
	trailer := 1 + vnChoice("trailer", 3)
	b := vnBytes("pkt", hlen+n+trailer)
	frag := vnBool("fragment")
	flags := uint8(0)
	if frag {
		flags = header.IPv4FlagMoreFragments
	}
	h := make([]byte, hlen)
	header.IPv4(h).Encode(&header.IPv4Fields{IHL: uint8(hlen), TotalLength: uint16(hlen + n), ID: vnU16("id"), Flags: flags, TTL: 64, Protocol: 17, SrcAddr: vhRemote, DstAddr: vhLocal})
	copy(b[:20], h[:20])
	for i := 20; i < hlen; i++ {
		b[i] = 1 // NOP options
	}
	want := append([]byte{}, b[hlen:hlen+n]...)
	env.e.HandlePacket(&env.r, vhPkt(b, 0))
	if !frag {
		vassert(len(env.disp.Pkts) == 1 && vhSame(env.disp.Pkts[0].Payload, want), "a datagram with options is delivered with exactly its payload (options and padding stripped)")
		vreach("options-whole")
		return
	}
	vassert(len(env.disp.Pkts) == 0, "a first fragment alone delivers nothing")
	// the closing fragment (no options, no padding)
	D2 := vnBytes("D2", 8)
	f1 := vhHeader(header.IPv4(b).ID(), 0, 8, 8, 17)
	copy(f1[20:], D2)
	env.e.HandlePacket(&env.r, vhPkt(f1, 0))
	vassert(len(env.disp.Pkts) == 1 && vhSame(env.disp.Pkts[0].Payload, append(want, D2...)), "a fragment with options and trailing padding contributes exactly its TotalLength - HeaderLength bytes")
	vreach("options-fragment")
}

// ---------- C13: ICMPv4 echo ----------

// RFC 1071 reference sum (independent of protocol/header)
func vhOnes(a, b uint16) uint16 {
	s := uint32(a) + uint32(b)
	return uint16(s&0xffff) + uint16(s>>16)
}
func vhSum(b []byte, init uint16) uint16 {
	s := init
	i := 0
	for ; i+1 < len(b); i += 2 {
		s = vhOnes(s, uint16(b[i])<<8|uint16(b[i+1]))
	}
	if i < len(b) {
		s = vhOnes(s, uint16(b[i])<<8)
	}
	return s
}

func vhICMPReq(typ byte, n int) []byte {
	b := make([]byte, 8+n)
	b[0] = typ
	b[1] = vnU8("code")
	b[2], b[3] = vnU8("ck0"), vnU8("ck1")
	id := vnBytes("identseq", 4)
	copy(b[4:8], id)
	copy(b[8:], vnBytes("payload", n))
	return b
}

func vh_echo4() {
	env := vhNewEnv()
	e := env.e
	q := vnChoice("pending", 3) * 5 // 0, 5 or 10 requests already waiting
	for i := 0; i < q; i++ {
		e.echoRequests <- echoRequest{r: env.r.Clone(), v: buffer.View([]byte{0, 0, 0, 0})}
	}
	n := vnChoice("len", vparam("maxlen", 4)+1)
	req := vhICMPReq(8, n)
	split := 0
	if vnBool("split") {
		split = 8 + vnChoice("at", 3)
	}
	e.handleICMP(&env.r, vhPkt(append([]byte{}, req...), split))
	if q == 10 {
		vassert(len(e.echoRequests) == 10 && len(env.link.Sent) == 0 && len(env.disp.Pkts) == 0, "with ten requests pending a further one is dropped without any other effect")
		vreach("dropped")
		return
	}
	vassert(len(e.echoRequests) == q+1, "an echo request is queued exactly once while fewer than ten are pending")
	vassert(len(env.link.Sent) == 0, "nothing is emitted before the replier runs")
	// drain the older requests, then run one iteration of echoReplier on ours
	for i := 0; i < q; i++ {
		<-e.echoRequests
	}
	r := <-e.echoRequests
	err := sendPing4(&r.r, 0, r.v)
	vassert(err == nil && len(env.link.Sent) == 1, "each request is answered by exactly one packet")
	f := env.link.Sent[0]
	h := f.Hdr
	vassert(len(h) >= 24 && h[0] == 0x45 && h[9] == 1, "the reply is an ICMP packet in a 20-byte IPv4 header")
	vassert(vhSame(h[12:16], []byte(vhLocal)) && vhSame(h[16:20], []byte(vhRemote)), "sent from the address that was pinged to the requester")
	// the ICMP message is whatever follows the IP header (this stack puts the sequence
	// number into the payload view; the wire image is what counts)
	msg := append(append([]byte{}, h[20:]...), f.Payload...)
	vassert(int(h[2])<<8|int(h[3]) == 20+len(msg) && len(msg) == 8+n, "the IPv4 total length covers header and ICMP message, which has the request's length")
	vassert(msg[0] == 0 && msg[1] == 0, "type 0 (echo reply), code 0")
	vassert(vhSame(msg[4:8], req[4:8]) && vhSame(msg[8:], req[8:]), "identifier, sequence number and payload are mirrored")
	ck := uint16(msg[2])<<8 | uint16(msg[3])
	msg[2], msg[3] = 0, 0
	vassert(ck == ^vhSum(msg, 0), "the ICMP checksum is the complemented RFC 1071 sum of the message")
	vreach("answered")
}

// The real replier loop: every queued request gets its reply attempt, also after a transient
// transmit error on an earlier one (a replier that gives up answers nobody afterwards).
func vh_echo_replier() {
	env := vhNewEnv()
	e := env.e
	k := 1 + vnChoice("requests", 3)
	for i := 0; i < k; i++ {
		req := vhICMPReq(8, 1)
		e.handleICMP(&env.r, vhPkt(req, 0))
	}
	vassert(len(e.echoRequests) == k, "queued")
	env.link.FailFirst = vnChoice("failfirst", 2)
	close(e.echoRequests) // lets the loop end once the queue is drained
	e.echoReplier()
	vassert(len(env.link.Sent) == k, "the replier answers every queued request, whatever happened to the earlier replies")
	vreach("replier")
}

// other ICMP types never produce an echo reply
func vh_icmp4_other() {
	env := vhNewEnv()
	n := vnChoice("len", 13)
	b := vnBytes("icmp", n)
	vassume(n == 0 || b[0] != 8)
	env.e.handleICMP(&env.r, vhPkt(b, 0))
	vassert(len(env.e.echoRequests) == 0 && len(env.link.Sent) == 0, "only echo requests are answered with echo replies")
	vreach("other")
}

// C07: arbitrary ICMPv4 messages (all types, incl. destination unreachable with an embedded
// header) neither panic nor emit anything but echo handling
func vh_icmp4_arbitrary() {
	env := vhNewEnv()
	n := []int{0, 3, 4, 5, 6, 8, 12, 36}[vnChoice("len", 8)]
	b := vnBytes("icmp", n)
	if n >= 36 {
		// embedded IPv4 header: keep IHL symbolic, addresses ours (otherwise dropped early)
		copy(b[8+12:8+16], []byte(vhLocal))
	}
	env.e.handleICMP(&env.r, vhPkt(b, vnChoice("split", 2)*8))
	// what the echoReplier goroutine does with whatever was queued
	for len(env.e.echoRequests) > 0 {
		req := <-env.e.echoRequests
		sendPing4(&req.r, 0, req.v)
	}
	vreach("icmp")
}

// ---------- C06: emitted IPv4 packets ----------
func vh_emit_ipv4() {
	env := vhNewEnv()
	hashIV = 1                     // the flow hash only selects the identification counter; any counter value is covered
	n := vnChoice("hdrlen", 3) * 8 // transport header bytes already prepended: 0, 8, 16
	m := []int{0, 3, 50}[vnChoice("paylen", 3)]
	hdr := buffer.NewPrependable(20 + n)
	th := hdr.Prepend(n)
	copy(th, vnBytes("thdr", n))
	payload := make([]byte, m)
	for i := range payload {
		payload[i] = byte(i)
	}
	var vv buffer.VectorisedView
	if m > 0 {
		vv = buffer.View(payload).ToVectorisedView()
	}
	// the protocol number also selects the identification counter (flow hash): enumerate it
	ttl, proto := vnU8("ttl"), []uint8{1, 6, 17, 250}[vnChoice("proto", 4)]
	err := env.e.WritePacket(&env.r, hdr, vv, tcpip.TransportProtocolNumber(proto), ttl)
	vassert(err == nil && len(env.link.Sent) == 1, "one packet is handed to the link layer")
	f := env.link.Sent[0]
	h := f.Hdr
	vassert(f.Proto == ProtocolNumber && len(h) == 20+n && h[0] == 0x45, "IPv4, IHL 5, in front of the transport header")
	vassert(int(h[2])<<8|int(h[3]) == 20+n+m && len(f.Payload) == m, "total length = header + transport header + payload")
	vassert(h[8] == ttl && h[9] == proto && h[6]&0xe0 == 0 && (int(h[6])&0x1f)<<8|int(h[7]) == 0, "TTL and protocol as requested; not a fragment")
	vassert(vhSame(h[12:16], []byte(vhLocal)) && vhSame(h[16:20], []byte(vhRemote)), "source = the route's local address, destination = its remote address")
	hz := append([]byte{}, h[:20]...)
	ck := uint16(hz[10])<<8 | uint16(hz[11])
	hz[10], hz[11] = 0, 0
	vassert(ck == ^vhSum(hz, 0), "the header checksum is the complemented RFC 1071 sum of the header")
	// a second large packet of the same flow gets a different identification
	if 20+n+m > 68 {
		hdr2 := buffer.NewPrependable(20 + n)
		hdr2.Prepend(n)
		env.e.WritePacket(&env.r, hdr2, vv, tcpip.TransportProtocolNumber(proto), ttl)
		h2 := env.link.Sent[1].Hdr
		vassert(h[4] != h2[4] || h[5] != h2[5], "consecutive large packets of one flow carry different IP identifiers")
		vreach("ids")
	}
	vreach("ipv4")
}

// C13 through the network layer: an echo request whose frame carries link-layer padding
// behind the IP datagram (Ethernet pads short frames) is answered with exactly the request's
// payload - the padding is not part of the message.
func vh_echo4_padded() {
	env := vhNewEnv()
	e := env.e
	n := vnChoice("len", 3)
	req := vhICMPReq(8, n)
	trailer := vnChoice("trailer", 4)
	b := make([]byte, 20+len(req)+trailer)
	copy(b, vhHeader(vnU16("id"), 0, 0, len(req), 1)[:20])
	copy(b[20:], req)
	copy(b[20+len(req):], vnBytes("padding", trailer))
	// the first view holds the IP and ICMP headers (what link endpoints deliver); the split, if
	// any, falls inside the payload or the padding
	e.HandlePacket(&env.r, vhPkt(b, 28+vnChoice("split", 4)))
	vassert(len(e.echoRequests) == 1 && len(env.link.Sent) == 0, "the request is queued once")
	r := <-e.echoRequests
	err := sendPing4(&r.r, 0, r.v)
	vassert(err == nil && len(env.link.Sent) == 1, "each request is answered by exactly one packet")
	f := env.link.Sent[0]
	msg := append(append([]byte{}, f.Hdr[20:]...), f.Payload...)
	vassert(len(msg) == 8+n, "the reply has the length of the request's ICMP message (no link-layer padding)")
	vassert(vhSame(msg[4:8], req[4:8]) && vhSame(msg[8:], req[8:]), "identifier, sequence number and payload are mirrored")
	ck := uint16(msg[2])<<8 | uint16(msg[3])
	msg[2], msg[3] = 0, 0
	vassert(ck == ^vhSum(msg, 0), "the ICMP checksum is the complemented RFC 1071 sum of the message")
	vreach("answered")
}

// C04 (path MTU): an ICMP "fragmentation needed" report is handed to the transport layer
// with the payload size the reported next-hop MTU allows, i.e. the MTU minus the IPv4 header
// (the value tcp.updateMaxPayloadSize takes as the new ceiling; C04 mss shows it is honoured).
func vh_icmp4_fragneeded() {
	env := vhNewEnv()
	e := env.e
	mtu := vnU16("mtu")
	vassume(mtu >= 68) // RFC 791 minimum; smaller reports are not meaningful path MTUs
	// type 3 code 4, unused(2) + next-hop MTU(2), then the offending IP header + 8 bytes
	b := make([]byte, 8+20+8)
	b[0], b[1] = 3, 4
	b[6], b[7] = byte(mtu>>8), byte(mtu)
	inner := vhHeader(vnU16("id"), 0, 0, 8, 6)
	// the offending packet was ours: from the local address to the remote one
	copy(inner[12:16], []byte(vhLocal))
	copy(inner[16:20], []byte(vhRemote))
	copy(b[8:], inner[:20])
	copy(b[28:], vnBytes("l4", 8))
	e.handleICMP(&env.r, vhPkt(b, 0))
	vassert(len(env.disp.Ctrl) == 1, "the report reaches the transport layer once")
	c := env.disp.Ctrl[0]
	vassert(c.Typ == stack.ControlPacketTooBig, "as a packet-too-big control message")
	vassert(c.Extra == uint32(mtu)-20, "carrying the reported path MTU minus the IPv4 header: the largest transport packet the path allows")
	vreach("fragneeded")
}
