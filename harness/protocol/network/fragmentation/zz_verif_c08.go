package fragmentation

import (
	"time"

	"github.com/brewlin/net-protocol/pkg/buffer"
)

// C08: reassembly on the exported API. A datagram D of nb 8-byte blocks (the last one
// possibly shorter) is delivered as k arbitrary well-formed fragments of D (any block range,
// any order, duplicates, overlaps); bytes are symbolic.

func vhSame(a, b []byte) bool {
	if len(a) != len(b) {
		return false
	}
	var d byte
	for i := range a {
		d |= a[i] ^ b[i]
	}
	return d == 0
}

// vhFrag picks an arbitrary fragment [fb,eb) in blocks of the datagram and returns its
// Process arguments. The payload is split into two views at an arbitrary point when split.
func vhFrag(D []byte, nb int, split bool) (first, last uint16, more bool, vv buffer.VectorisedView, fb, eb int) {
	fb = vnChoice("fb", nb)
	eb = fb + 1 + vnChoice("len", nb-fb)
	lo, hi := 8*fb, 8*eb
	if hi > len(D) {
		hi = len(D)
	}
	more = eb < nb
	data := make([]byte, hi-lo)
	copy(data, D[lo:hi])
	if split && len(data) > 1 {
		nc := len(data) - 1
		if nc > 3 {
			nc = 3
		}
		c := 1 + vnChoice("cut", nc)
		vv = buffer.NewVectorisedView(len(data), []buffer.View{buffer.View(data[:c]), buffer.View(data[c:])})
	} else {
		vv = buffer.View(data).ToVectorisedView()
	}
	return uint16(lo), uint16(hi - 1), more, vv, fb, eb
}

func vhDatagram(name string, maxBlocks int) ([]byte, int) {
	nb := 1 + vnChoice(name+".blocks", maxBlocks)
	tail := []int{8, 5, 1}[vnChoice(name+".tail", 3)]
	return vnBytes(name, 8*(nb-1)+tail), nb
}

// O1: done exactly when the union first covers the datagram including its last fragment;
// the bytes are D; earlier calls return nothing.
func vh_reassemble() {
	D, nb := vhDatagram("D", vparam("blocks", 3))
	f := NewFragmentation(1<<20, 1<<19, time.Hour)
	vclockFreeze() // all fragments arrive at one instant (timeout interplay: see vh_timeout)
	id := vnU32("id")
	covered := make([]bool, nb)
	k := vparam("frags", 3)
	for i := 0; i < k; i++ {
		first, last, more, vv, fb, eb := vhFrag(D, nb, i == 0 && vparam("split", 1) == 1)
		res, done := f.Process(id, first, last, more, vv)
		for b := fb; b < eb; b++ {
			covered[b] = true
		}
		all := true
		for _, c := range covered {
			all = all && c
		}
		if done {
			vassert(all, "a datagram is handed up only once a complete set of fragments has been received")
			vassert(res.Size() == len(D) && vhSame(res.ToView(), D), "the reassembled payload is byte-for-byte the original datagram")
			vassert(f.size == 0 && len(f.reassemblers) == 0, "a completed reassembly releases its memory accounting")
			vreach("done")
			return
		}
		vassert(!all, "the datagram is handed up as soon as the set is complete")
		vassert(res.Size() == 0 && len(res.Views()) == 0, "an incomplete set delivers nothing")
		r := f.reassemblers[id]
		vassert(r != nil && f.size == r.size, "memory accounting equals the live reassembler's size")
	}
	vreach("incomplete")
}

// O2: fragments of different datagrams (different ids) are never mixed.
func vh_separation() {
	A, na := vhDatagram("A", 2)
	B, nbb := vhDatagram("B", 2)
	f := NewFragmentation(1<<20, 1<<19, time.Hour)
	vclockFreeze()
	ida, idb := vnU32("ida"), vnU32("idb")
	vassume(ida != idb)
	k := vparam("sepfrags", 4)
	for i := 0; i < k; i++ {
		if vnChoice("which", 2) == 0 {
			first, last, more, vv, _, _ := vhFrag(A, na, false)
			res, done := f.Process(ida, first, last, more, vv)
			if done {
				vassert(vhSame(res.ToView(), A), "datagram A is reassembled from A's fragments only")
				vreach("doneA")
			}
		} else {
			first, last, more, vv, _, _ := vhFrag(B, nbb, false)
			res, done := f.Process(idb, first, last, more, vv)
			if done {
				vassert(vhSame(res.ToView(), B), "datagram B is reassembled from B's fragments only")
				vreach("doneB")
			}
		}
		sum := 0
		for _, r := range f.reassemblers {
			sum += r.size
		}
		vassert(f.size == sum, "Fragmentation.size equals the sum of live reassembler sizes")
	}
}

// O3: fragments older than the reassembly timeout are not combined with newer ones.
func vh_timeout() {
	D := vnBytes("D", 16)
	timeout := time.Duration(vnU32("timeout")) * time.Millisecond
	f := NewFragmentation(1<<20, 1<<19, timeout)
	id := vnU32("id")
	_, done := f.Process(id, 0, 7, true, buffer.View(D[:8]).ToVectorisedView())
	vassert(!done, "first fragment alone is incomplete")
	created := f.reassemblers[id].creationTime
	tb := time.Now()
	res, done2 := f.Process(id, 8, 15, false, buffer.View(D[8:]).ToVectorisedView())
	ta := time.Now()
	if done2 {
		vassert(tb.Sub(created) <= timeout, "fragments older than the timeout are not combined with newer ones")
		vassert(vhSame(res.ToView(), D), "within the timeout the datagram is reassembled")
		vreach("in-time")
	} else {
		vassert(ta.Sub(created) > timeout, "within the timeout the second fragment completes the datagram")
		r := f.reassemblers[id]
		vassert(r != nil && r.size == 8 && f.size == 8, "an expired reassembler is replaced by a fresh one holding only the new fragment")
		vreach("expired")
	}
}

// O5: memory pressure evicts whole reassemblers from the tail and keeps the accounting.
func vh_eviction() {
	f := NewFragmentation(vparam("high", 20), vparam("low", 10), time.Hour)
	vclockFreeze()
	k := vparam("evfrags", 3)
	for i := 0; i < k; i++ {
		id := uint32(vnChoice("id", 3))
		n := 8
		first := uint16(8 * vnChoice("blk", 2))
		data := vnBytes("d", n)
		f.Process(id, first, first+uint16(n)-1, true, buffer.View(data).ToVectorisedView())
		sum := 0
		cnt := 0
		for _, r := range f.reassemblers {
			sum += r.size
			cnt++
			vassert(!r.done, "no released reassembler stays in the table")
		}
		vassert(f.size == sum, "Fragmentation.size equals the sum of live reassembler sizes after eviction")
		vassert(f.size <= f.highLimit, "after a call the memory in use is within the high limit")
		n2 := 0
		for e := f.rList.Front(); e != nil; e = e.Next() {
			n2++
		}
		vassert(n2 == cnt, "the LRU list and the table hold the same reassemblers")
	}
	vreach("evict")
}

// updateHoles: the hole list stays a set of disjoint gaps (table from the repo's TestUpdateHoles is inside the bound)
func vh_holes() {
	r := newReassembler(1)
	k := vparam("holefrags", 3)
	for i := 0; i < k; i++ {
		fb := vnChoice("fb", 4)
		eb := fb + 1 + vnChoice("len", 4-fb)
		more := vnBool("more")
		r.updateHoles(uint16(8*fb), uint16(8*eb-1), more)
		live := 0
		for a := range r.holes {
			if r.holes[a].deleted {
				continue
			}
			live++
			vassert(r.holes[a].first <= r.holes[a].last, "holes are non-empty ranges")
			for b := range r.holes {
				if b != a && !r.holes[b].deleted {
					vassert(r.holes[a].last < r.holes[b].first || r.holes[b].last < r.holes[a].first, "live holes are disjoint")
				}
			}
		}
		vassert(r.deleted+live == len(r.holes), "deleted counter matches the hole list")
	}
	vreach("holes")
}

// The reassembly timeout runs from the first fragment: progress does not extend it.
func vh_timeout_progress() {
	D := vnBytes("D", 24)
	timeout := time.Duration(1+vnU32("timeout")%100000) * time.Millisecond
	gap := func() {}
	if !vsymbolic() {
		// native replay cannot impose the solver's clock readings on time.Now; it realises the
		// same situation with real time instead: gaps of 2/3 of the timeout between fragments
		timeout = 30 * time.Millisecond
		gap = func() { time.Sleep(20 * time.Millisecond) }
	}
	f := NewFragmentation(1<<20, 1<<19, timeout)
	id := vnU32("id")
	_, d0 := f.Process(id, 0, 7, true, buffer.View(D[:8]).ToVectorisedView())
	t0 := f.reassemblers[id].creationTime // when the first fragment was seen
	gap()
	_, d1 := f.Process(id, 8, 15, true, buffer.View(D[8:16]).ToVectorisedView())
	vassert(!d0 && !d1, "incomplete")
	gap()
	tb := time.Now()
	res, done := f.Process(id, 16, 23, false, buffer.View(D[16:]).ToVectorisedView())
	if done {
		vassert(vhSame(res.ToView(), D), "reassembled")
		vassert(tb.Sub(t0) <= timeout, "a datagram completes only if its last fragment arrives within the timeout after the first one was seen (progress in between does not extend the deadline)")
		vreach("in-time")
	} else {
		vreach("expired")
	}
}
