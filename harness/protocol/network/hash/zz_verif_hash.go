package hash

import "github.com/brewlin/net-protocol/protocol/header"

// C08 (D4): the reassembly key distinguishes different datagrams.
func vh_key_distinct() {
	hashIV = vnU32("iv")
	a, b := vnBytes("ha", 20), vnBytes("hb", 20)
	ha, hb := header.IPv4(a), header.IPv4(b)
	differ := vor(vor(ha.ID() != hb.ID(), ha.Protocol() != hb.Protocol()), vor(ha.SourceAddress() != hb.SourceAddress(), ha.DestinationAddress() != hb.DestinationAddress()))
	vassume(differ)
	vassertKnown(IPv4FragmentHash(ha) != IPv4FragmentHash(hb), "fragments of different datagrams (id, protocol, source, destination) get different reassembly keys", "D4-fragkey-collision", true)
	vreach("key")
}
