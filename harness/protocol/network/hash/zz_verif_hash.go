package hash

import (
	"encoding/binary"

	"github.com/brewlin/net-protocol/protocol/header"
)

// C08 (D4): the reassembly key distinguishes different datagrams.
func vh_key_distinct() {
	hashIV = vnU32("iv")
	a, b := vnBytes("ha", 20), vnBytes("hb", 20)
	ha, hb := header.IPv4(a), header.IPv4(b)
	differ := vor(vor(ha.ID() != hb.ID(), ha.Protocol() != hb.Protocol()), vor(ha.SourceAddress() != hb.SourceAddress(), ha.DestinationAddress() != hb.DestinationAddress()))
	vassume(differ)
	vassertKnown(IPv4FragmentHash(ha) != IPv4FragmentHash(hb), "fragments of different datagrams (id, protocol, source, destination) get different reassembly keys", "D4-fragkey-collision", true)
	vreach("key")
}

// The key is the 3-word hash of exactly (id<<16|protocol, source, destination): every byte of
// both addresses enters at its own position (reference composition written independently).
func vh_key_composition() {
	hashIV = vnU32("iv")
	a := vnBytes("ha", 20)
	h := header.IPv4(a)
	x := uint32(binary.BigEndian.Uint16(a[4:6]))<<16 | uint32(a[9])
	y := binary.LittleEndian.Uint32(a[12:16])
	z := binary.LittleEndian.Uint32(a[16:20])
	vassert(IPv4FragmentHash(h) == Hash3Words(x, y, z, hashIV), "the reassembly key is Hash3Words(id<<16|protocol, source, destination, iv)")
	vreach("composition")
}
