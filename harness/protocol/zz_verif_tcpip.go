package tcpip

// C09: subnet membership and route matching against their bitwise definitions, for
// addresses of every length combination (IPv4 vs IPv6 vs empty).
func vh_subnet_contains() {
	ls := []int{4, 16}[vnChoice("subnetlen", 2)]
	la := []int{0, 4, 16}[vnChoice("addrlen", 3)]
	id, mask := vnString("id", ls), vnString("mask", ls)
	s, err := NewSubnet(Address(id), AddressMask(mask))
	var bad byte
	for i := 0; i < ls; i++ {
		bad |= id[i] &^ mask[i]
	}
	wellFormed := bad == 0
	vassert((err == nil) == wellFormed, "NewSubnet accepts exactly the addresses that are zero outside the mask")
	if err != nil {
		vreach("rejected")
		return
	}
	a := Address(vnString("addr", la))
	want := la == ls
	if want {
		var diff byte
		for i := 0; i < ls; i++ {
			diff |= (a[i] & mask[i]) ^ id[i]
		}
		want = diff == 0
	}
	vassert(s.Contains(a) == want, "Subnet.Contains: same address family and bitwise prefix match")
	r := Route{Destination: Address(id), Mask: AddressMask(mask)}
	vassert(r.Match(a) == want, "Route.Match: same address family and bitwise prefix match")
	vreach("contains")
}
