package udp

import (
	"github.com/brewlin/net-protocol/pkg/buffer"
	"github.com/brewlin/net-protocol/pkg/waiter"
	tcpip "github.com/brewlin/net-protocol/protocol"
	"github.com/brewlin/net-protocol/protocol/header"
	"github.com/brewlin/net-protocol/protocol/network/ipv4"
	"github.com/brewlin/net-protocol/stack"
)

// ---------- C11: UDP datagrams ----------

const (
	vhLocal  = tcpip.Address("\x0a\x00\x00\x01")
	vhRemote = tcpip.Address("\x0a\x00\x00\x02")
)

type vhU struct {
	e   *endpoint
	net *stack.VHNet
	nic *stack.NIC
	r   stack.Route
}

func vhEP(bufMax int) *vhU {
	s := stack.VHStack()
	link := &stack.VHLink{Mtu: 1500}
	nic := stack.VHNIC(s, 1, link)
	net := &stack.VHNet{Mtu: 1480, Ttl: 64, Nic: 1}
	e := &endpoint{stack: s, netProto: header.IPv4ProtocolNumber, waiterQueue: &waiter.Queue{}, rcvBufSizeMax: bufMax, sndBufSize: 1 << 16,
		state: stateConnected, multicastTTL: 1}
	e.id = stack.TransportEndpointID{LocalPort: 53, LocalAddress: vhLocal, RemotePort: 4000, RemoteAddress: vhRemote}
	e.dstPort = 4000
	e.rcvReady = true
	u := &vhU{e: e, net: net, nic: nic}
	u.r = stack.VHRoute(nic, net, header.IPv4ProtocolNumber, vhLocal, vhRemote, nil)
	e.route = u.r.Clone()
	return u
}

func vhSame(a, b []byte) bool {
	if len(a) != len(b) {
		return false
	}
	var d byte
	for i := range a {
		d |= a[i] ^ b[i]
	}
	return d == 0
}

type vhDgram struct {
	payload []byte
	sport   uint16
	from    tcpip.Address
}

// vhInject builds a datagram (UDP header + payload in 1-2 views) and hands it to HandlePacket.
func (u *vhU) vhInject(d vhDgram, lengthField uint16, split int) {
	b := make([]byte, 8+len(d.payload))
	header.UDP(b).Encode(&header.UDPFields{SrcPort: d.sport, DstPort: 53, Length: lengthField})
	copy(b[8:], d.payload)
	var vv buffer.VectorisedView
	if split >= 8 && split < len(b) {
		vv = buffer.NewVectorisedView(len(b), []buffer.View{buffer.View(b[:split]), buffer.View(b[split:])})
	} else {
		vv = buffer.View(b).ToVectorisedView()
	}
	id := stack.TransportEndpointID{LocalPort: 53, LocalAddress: vhLocal, RemotePort: d.sport, RemoteAddress: d.from}
	u.e.HandlePacket(&u.r, id, vv)
}

func (u *vhU) vhQueue() []vhDgram {
	var out []vhDgram
	for p := u.e.rcvList.Front(); p != nil; p = p.Next() {
		out = append(out, vhDgram{payload: p.data.ToView(), sport: p.senderAddress.Port, from: p.senderAddress.Addr})
	}
	return out
}

func vhArb(name string, maxLen int) vhDgram {
	n := vnChoice(name+".len", maxLen+1)
	return vhDgram{payload: vnBytes(name, n), sport: vnU16(name + ".sport"), from: tcpip.Address(vnString(name+".from", 4))}
}

// O1/O3: one arrival on an arbitrary queue
func vh_udp_arrival() {
	// the limit is small and varies so that the queue can be exactly full, one short, or over
	u := vhEP(1 + vnChoice("bufmax", vparam("bufmax", 6)))
	e := u.e
	q := vnChoice("queued", 3)
	var want []vhDgram
	for i := 0; i < q; i++ {
		d := vhArb("old", 2)
		before := e.rcvBufSize
		u.vhInject(d, uint16(8+len(d.payload)), 0)
		if before < e.rcvBufSizeMax {
			want = append(want, d)
		}
	}
	vassert(len(u.vhQueue()) == len(want), "queue built")
	switch vnChoice("state", 3) {
	case 1:
		fl := tcpip.ShutdownRead
		if vnBool("alsowrite") {
			fl |= tcpip.ShutdownWrite
		}
		vassert(e.Shutdown(fl) == nil && e.rcvClosed, "Shutdown(read) - alone or together with write - closes the receive side")
	case 2:
		e.rcvReady = false
	}
	d := vhArb("new", vparam("maxlen", 4))
	lf := uint16(8 + len(d.payload))
	malformed := vnBool("badlength")
	if malformed {
		lf = vnU16("lengthfield")
		vassume(int(lf) > 8+len(d.payload)) // declares more than was received
	}
	size0 := e.rcvBufSize
	accept := !malformed && e.rcvReady && !e.rcvClosed && e.rcvBufSize < e.rcvBufSizeMax
	u.vhInject(d, lf, 8+vnChoice("split", 3))
	got := u.vhQueue()
	if accept {
		vassert(len(got) == len(want)+1, "an accepted datagram is queued as exactly one packet")
		last := got[len(got)-1]
		vassert(vhSame(last.payload, d.payload), "the queued packet is byte-for-byte the datagram's payload (never truncated, split or merged)")
		vassert(last.sport == d.sport && last.from == d.from, "it is reported with the true source address and port")
		vassert(e.rcvBufSize == size0+len(d.payload), "buffer accounting grows by the payload size")
		vreach("accepted")
	} else {
		vassert(len(got) == len(want) && e.rcvBufSize == size0, "a datagram that does not fit, arrives after the read side is closed, or declares more bytes than arrived is dropped whole")
		vreach("dropped")
	}
	for i := range want {
		vassert(vhSame(got[i].payload, want[i].payload) && got[i].sport == want[i].sport && got[i].from == want[i].from, "earlier datagrams are untouched and keep their order")
	}
}

// O2: reads return the datagrams in arrival order, each at most once
func vh_udp_read() {
	u := vhEP(1 << 16)
	e := u.e
	k := vnChoice("queued", 3)
	var want []vhDgram
	for i := 0; i < k; i++ {
		d := vhArb("d", 3)
		u.vhInject(d, uint16(8+len(d.payload)), 8+vnChoice("split", 3)) // payload in one or two views
		want = append(want, d)
	}
	closed := vnBool("closed")
	if closed {
		e.Shutdown(tcpip.ShutdownRead)
	}
	for i := 0; i < k; i++ {
		var from tcpip.FullAddress
		v, _, err := e.Read(&from)
		vassert(err == nil, "queued datagrams can be read (also after the read side was shut down)")
		vassert(vhSame(v, want[i].payload), "a read returns one whole datagram, in arrival order")
		vassert(from.Port == want[i].sport && from.Addr == want[i].from && from.NIC == 1, "with its sender")
	}
	_, _, err := e.Read(nil)
	if closed {
		vassert(err == tcpip.ErrClosedForReceive, "an empty closed socket reports ErrClosedForReceive")
	} else {
		vassert(err == tcpip.ErrWouldBlock, "each arrival is returned at most once: an empty queue would block")
	}
	vassert(e.rcvBufSize == 0, "accounting returns to zero")
	vreach("read")
}

type vhBig int

func (b vhBig) Get(n int) ([]byte, *tcpip.Error) { return nil, tcpip.ErrInvalidOptionValue }
func (b vhBig) Size() int                        { return int(b) }

// O4: a write emits exactly one packet carrying exactly the bytes, or fails
func vh_udp_write() {
	u := vhEP(1 << 16)
	e := u.e
	if vnBool("toobig") {
		n := vnInt("size")
		vassume(n > 65535 && n < 1<<30)
		got, _, err := e.Write(vhBig(n), tcpip.WriteOptions{})
		vassert(got == 0 && err == tcpip.ErrMessageTooLong && len(u.net.Sent) == 0, "a datagram above 65535 bytes is refused and nothing is emitted")
		vreach("toobig")
		return
	}
	if vnBool("shut") {
		e.state = stateConnected
		vassert(e.Shutdown(tcpip.ShutdownWrite) == nil, "shutdown write")
		got, _, err := e.Write(tcpip.SlicePayload(vnBytes("p", 2)), tcpip.WriteOptions{})
		vassert(got == 0 && err == tcpip.ErrClosedForSend && len(u.net.Sent) == 0, "writes after Shutdown(write) fail and emit nothing")
		vreach("shut")
		return
	}
	n := vnChoice("len", vparam("maxlen", 4)+1)
	p := vnBytes("p", n)
	want := append([]byte{}, p...)
	e.id.LocalPort = vnU16("lport")
	e.dstPort = vnU16("dport")
	// the send buffer size is not part of the contract: whatever it is, a datagram goes out
	// whole or not at all
	e.sndBufSize = int(vnU8("sndbuf"))
	got, _, err := e.Write(tcpip.SlicePayload(p), tcpip.WriteOptions{})
	vassert(err == nil && int(got) == n, "the write reports every byte as sent")
	vassert(len(u.net.Sent) == 1, "a datagram written is emitted as exactly one packet")
	pk := u.net.Sent[0]
	vassert(pk.Proto == ProtocolNumber && len(pk.Hdr) == 8 && vhSame(pk.Payload, want), "the packet carries exactly the written bytes")
	h := pk.Hdr
	vassert(uint16(h[0])<<8|uint16(h[1]) == e.id.LocalPort && uint16(h[2])<<8|uint16(h[3]) == e.dstPort && int(uint16(h[4])<<8|uint16(h[5])) == 8+n, "the UDP header carries the socket's port, the destination port and length 8+n")
	vassert(pk.Local == vhLocal && pk.Remote == vhRemote, "addressed from the socket's address to its peer")
	vreach("written")
}

// C07: arbitrary bytes handed to the UDP endpoint (first view >= 8 bytes, as the NIC guarantees)
func vh_udp_arbitrary() {
	u := vhEP(64)
	n := 8 + vnChoice("extra", 4)
	b := vnBytes("dgram", n)
	var vv buffer.VectorisedView
	if n > 9 && vnBool("split") {
		vv = buffer.NewVectorisedView(n, []buffer.View{buffer.View(b[:9]), buffer.View(b[9:])})
	} else {
		vv = buffer.View(b).ToVectorisedView()
	}
	id := stack.TransportEndpointID{LocalPort: 53, LocalAddress: vhLocal, RemotePort: 1, RemoteAddress: vhRemote}
	u.e.HandlePacket(&u.r, id, vv)
	sum := 0
	for p := u.e.rcvList.Front(); p != nil; p = p.Next() {
		sum += p.data.Size()
	}
	vassert(sum == u.e.rcvBufSize, "buffer accounting matches the queue after any input")
	vreach("udp")
}

// ---------- C06: emitted UDP datagrams ----------
func vhOnes(a, b uint16) uint16 {
	s := uint32(a) + uint32(b)
	return uint16(s&0xffff) + uint16(s>>16)
}
func vhSum(b []byte, init uint16) uint16 {
	s := init
	i := 0
	for ; i+1 < len(b); i += 2 {
		s = vhOnes(s, uint16(b[i])<<8|uint16(b[i+1]))
	}
	if i < len(b) {
		s = vhOnes(s, uint16(b[i])<<8)
	}
	return s
}

func vh_emit_udp() {
	u := vhEP(64)
	n := vnChoice("len", 4)
	p := vnBytes("p", n)
	want := append([]byte{}, p...)
	lp, dp := vnU16("lport"), vnU16("dport")
	var vv buffer.VectorisedView
	if n > 0 {
		vv = buffer.View(p).ToVectorisedView()
	}
	err := sendUDP(&u.r, vv, lp, dp, 9)
	vassert(err == nil && len(u.net.Sent) == 1, "one datagram is handed to the network layer")
	pk := u.net.Sent[0]
	h := pk.Hdr
	vassert(len(h) == 8 && pk.Proto == ProtocolNumber && pk.TTL == 9 && pk.Local == vhLocal && pk.Remote == vhRemote, "an 8-byte UDP header, addressed per the route")
	vassert(uint16(h[0])<<8|uint16(h[1]) == lp && uint16(h[2])<<8|uint16(h[3]) == dp && int(uint16(h[4])<<8|uint16(h[5])) == 8+n && vhSame(pk.Payload, want), "ports, length = 8 + payload, payload unchanged")
	l := 8 + n
	ps := append([]byte{}, []byte(vhLocal)...)
	ps = append(ps, []byte(vhRemote)...)
	ps = append(ps, 0, 17, byte(l>>8), byte(l))
	hz := append([]byte{}, h...)
	ck := uint16(hz[6])<<8 | uint16(hz[7])
	hz[6], hz[7] = 0, 0
	vassert(ck == ^vhSum(append(append(ps, hz...), pk.Payload...), 0), "the UDP checksum is the complemented RFC 1071 sum over pseudo header, header and payload")
	vreach("udp")
}

// a datagram scattered over many buffer views (e.g. reassembled from many fragments) is
// still queued whole
func vh_udp_manyviews() {
	u := vhEP(1 << 16)
	nv := 2 + vnChoice("views", vparam("maxviews", 10))
	payload := vnBytes("payload", nv)
	hdr := make([]byte, 8)
	header.UDP(hdr).Encode(&header.UDPFields{SrcPort: 7, DstPort: 53, Length: uint16(8 + nv)})
	views := []buffer.View{buffer.View(hdr)}
	for i := 0; i < nv; i++ {
		views = append(views, buffer.View(payload[i:i+1]))
	}
	vv := buffer.NewVectorisedView(8+nv, views)
	id := stack.TransportEndpointID{LocalPort: 53, LocalAddress: vhLocal, RemotePort: 7, RemoteAddress: vhRemote}
	u.e.HandlePacket(&u.r, id, vv)
	// the deliverer reuses its array of views for the next frame (as the fd-based link endpoint
	// does): a queued datagram must not depend on it
	for i := range views {
		views[i] = nil
	}
	q := u.vhQueue()
	vassert(len(q) == 1 && vhSame(q[0].payload, payload), "a datagram arriving in many views is queued whole, byte for byte")
	v, _, err := u.e.Read(nil)
	vassert(err == nil && vhSame(v, payload), "and read back whole")
	vassert(u.e.rcvBufSize == 0, "reading it releases all of its bytes from the receive-buffer accounting")
	vreach("manyviews")
}

// Bind/Connect registration: a connected socket receives only from its peer, whether or not
// it was bound first, and only on its own port.
func vh_udp_connect() {
	s := stack.VHStack()
	stack.VHAddProtocols(s, []stack.NetworkProtocol{ipv4.NewProtocol()}, []stack.TransportProtocol{&protocol{}})
	link := &stack.VHLink{Mtu: 1500}
	nic := stack.VHNIC(s, 1, link)
	vassert(nic.AddAddress(header.IPv4ProtocolNumber, vhLocal) == nil, "address added")
	s.SetRouteTable([]tcpip.Route{{Destination: "\x00\x00\x00\x00", Mask: "\x00\x00\x00\x00", NIC: 1}})
	e := newEndpoint(s, header.IPv4ProtocolNumber, &waiter.Queue{})
	switch vnChoice("bind", 3) {
	case 1:
		vassert(e.Bind(tcpip.FullAddress{Addr: vhLocal, Port: 53}, nil) == nil, "bind to an address of the interface")
		vreach("bound")
	case 2:
		vassert(e.Bind(tcpip.FullAddress{Port: 53}, nil) == nil, "bind to the wildcard address")
		vreach("bound-any")
	}
	vassert(e.Connect(tcpip.FullAddress{Addr: vhRemote, Port: 4000}) == nil, "connect")
	lport := e.id.LocalPort
	vassert(lport != 0, "a connected socket has a local port")
	// a datagram from an arbitrary sender to an arbitrary local port
	from := tcpip.Address(vnString("from", 4))
	sport, dport := vnU16("sport"), vnU16("dport")
	b := make([]byte, 9)
	header.UDP(b).Encode(&header.UDPFields{SrcPort: sport, DstPort: dport, Length: 9})
	b[8] = vnU8("payload")
	r := stack.VHRoute(nic, &stack.VHNet{Mtu: 1480, Ttl: 64, Nic: 1}, header.IPv4ProtocolNumber, vhLocal, from, nil)
	nic.DeliverTransportPacket(&r, ProtocolNumber, buffer.View(b).ToVectorisedView())
	n := 0
	for p := e.rcvList.Front(); p != nil; p = p.Next() {
		n++
	}
	if from == vhRemote && sport == 4000 && dport == lport {
		vassert(n == 1, "a datagram from the connected peer to the socket's port is received")
		vreach("peer")
	} else {
		vassert(n == 0, "a connected socket receives nothing from other senders or on other ports")
		vreach("other")
	}
}

// sendto: a write with an explicit destination goes to exactly that address and port -
// also on a connected socket, also when the address is the connected peer's and only the
// port differs - through the real Stack.FindRoute.
func vh_udp_sendto() {
	s := stack.VHStack()
	net := &stack.VHNet{Mtu: 1480, Ttl: 64, Nic: 1}
	stack.VHAddProtocols(s, []stack.NetworkProtocol{&stack.VHProtoV4{EP: net}}, nil)
	nic := stack.VHNIC(s, 1, &stack.VHLink{Mtu: 1500})
	vassert(nic.AddAddress(header.IPv4ProtocolNumber, vhLocal) == nil, "address added")
	stack.VHDefaultRoute(s, 1)
	e := &endpoint{stack: s, netProto: header.IPv4ProtocolNumber, waiterQueue: &waiter.Queue{}, rcvBufSizeMax: 1 << 16, sndBufSize: 1 << 16, multicastTTL: 1}
	e.id = stack.TransportEndpointID{LocalPort: 53, LocalAddress: vhLocal}
	e.state = stateBound
	if vnBool("connected") {
		e.state = stateConnected
		e.id.RemotePort = 4000
		e.id.RemoteAddress = vhRemote
		e.dstPort = 4000
		e.route = stack.VHRoute(nic, net, header.IPv4ProtocolNumber, vhLocal, vhRemote, nil)
	}
	to := tcpip.FullAddress{Addr: vhRemote, Port: vnU16("toport")}
	if vnBool("otherhost") {
		to.Addr = tcpip.Address("\x0a\x00\x00\x09")
	}
	p := vnBytes("p", 2)
	want := append([]byte{}, p...)
	got, _, err := e.Write(tcpip.SlicePayload(p), tcpip.WriteOptions{To: &to})
	vassert(err == nil && int(got) == 2, "the write reports every byte as sent")
	vassert(len(net.Sent) == 1, "a datagram written is emitted as exactly one packet")
	pk := net.Sent[0]
	h := pk.Hdr
	vassert(len(h) == 8 && vhSame(pk.Payload, want), "the packet carries exactly the written bytes")
	vassert(pk.Remote == to.Addr && uint16(h[2])<<8|uint16(h[3]) == to.Port, "it is addressed to exactly the address and port given to the write")
	vassert(pk.Local == vhLocal && uint16(h[0])<<8|uint16(h[1]) == 53, "from the socket's own address and port")
	vreach("sendto")
}
