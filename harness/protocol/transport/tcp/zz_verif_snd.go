package tcp

import (
	"time"

	"github.com/brewlin/net-protocol/pkg/buffer"
	"github.com/brewlin/net-protocol/pkg/seqnum"
	tcpip "github.com/brewlin/net-protocol/protocol"
)

// Sender-side one-step lemmas (C01-O4/O5, C02-O3/O4, C04-O1/O2, C05).
//
// InvS: the write list is [assigned segments] ++ [unassigned segments]; assigned segments
// (flags != 0) carry contiguous sequence ranges starting at sndUna; unassigned ones have
// flags == 0; sndNxt is a segment boundary inside the assigned part (segments after it were
// assigned by a split but not sent yet); every segment's bytes are the stream bytes of its
// position; sndNxtList is the end of the list; writeNext points into the list at or before
// the sndNxt boundary (or is nil when everything was sent); a FIN segment is empty and last.

type vhSndShape struct {
	total seqnum.Size // bytes (and FIN) in the list
}

// vhSender builds an arbitrary sender state. k segments, a assigned, writeNext at index wn.
func (c *vhConn) vhSender() *sender {
	e := c.e
	sndUna := seqnum.Value(vnU32("sndUna"))
	irs := seqnum.Value(vnU32("irs"))
	e.rcv = newReceiver(e, irs, 1<<16, 0)
	var wnd seqnum.Size
	switch vhPick("wndkind", 4) {
	case 0:
		wnd = 0
	case 1:
		wnd = 1
	case 2:
		wnd = 3
	default:
		wnd = seqnum.Size(vnU32("sndWnd"))
		vassume(wnd >= 16 && wnd < 1<<30)
	}
	s := newSender(e, sndUna-1, irs, wnd, 1460, 0)
	e.snd = s
	vassert(s.sndUna == sndUna && s.sndNxt == sndUna && s.sndNxtList == sndUna && s.sndCwnd == InitialCwnd && s.rto == time.Second && s.maxPayloadSize >= 1, "newSender establishes InvS with cwnd 10 and rto 1s")
	s.maxPayloadSize = []int{1, 2, 1460}[vhPick("mss", 3)]
	s.sndCwnd = []int{1, 2, 10}[vhPick("cwnd", 3)]
	k := vnChoice("nsegs", vparam("maxsegs", 2)+1)
	a := vnChoice("assigned", k+1)
	wn := vnChoice("writenext", a+1)
	nb := wn + vnChoice("sentupto", a-wn+1) // the first nb segments were sent (sndNxt boundary)
	fin := false
	if k > 0 && vnBool("fin") {
		fin = true
	}
	pos := sndUna
	idx := 0
	for i := 0; i < k; i++ {
		n := 1 + vnChoice("len", vparam("maxlen", 2))
		if fin && i == k-1 {
			n = 0
		}
		seg := newSegmentFromView(&e.route, e.id, buffer.View(vhData(pos, n)))
		if i < a {
			seg.sequenceNumber = pos
			seg.flags = flagAck | flagPsh
			if n == 0 {
				seg.flags = flagAck | flagFin
			}
		}
		s.writeList.PushBack(seg)
		if i == wn {
			s.writeNext = seg
		}
		l := seqnum.Size(n)
		if n == 0 {
			l = 1
		}
		pos = pos.Add(l)
		if i < nb {
			s.sndNxt = pos
		}
		idx++
	}
	s.sndNxtList = pos
	s.outstanding = wn
	if fin && wn == k {
		s.outstanding = wn - 1 // a sent FIN is not counted as an outstanding packet
	}
	if fin {
		e.sndClosed = true
	}
	e.sndBufUsed = int(sndUna.Size(pos))
	if s.sndUna != s.sndNxt {
		s.resendTimer.enable(s.rto)
	}
	c.net.Sent = nil
	return s
}

func vhInvS(s *sender) bool {
	ok := true
	pos := s.sndUna
	assigned := true
	seenNext := s.writeNext == nil
	nxtIsBoundary := s.sndNxt == s.sndUna
	wnOK := s.writeNext != nil
	before := 0 // segments sent and not yet acknowledged (those in front of writeNext)
	passed := false
	for seg := s.writeList.Front(); seg != nil; seg = seg.Next() {
		if seg == s.writeNext {
			passed = true
		}
		if !passed && seg.data.Size() > 0 { // sendData counts data segments only (a FIN is not counted)
			before++
		}
		if seg == s.writeNext {
			seenNext = true
			wnOK = !s.sndNxt.LessThan(pos) // writeNext sits at or before the sndNxt boundary
		}
		if seg.flags == 0 {
			assigned = false
		}
		n := seg.data.Size()
		if assigned {
			ok = vand(ok, seg.sequenceNumber == pos)
		} else {
			ok = vand(ok, seg.flags == 0)
		}
		ok = vand(ok, vhConsistent(pos, seg.data.ToView()))
		l := seqnum.Size(n)
		if n == 0 {
			l = 1
			ok = vand(ok, seg.Next() == nil) // FIN is last
			// an empty segment is a FIN (queued by Shutdown), never a data segment emptied by trimming
			ok = vand(ok, s.ep.sndClosed)
			ok = vand(ok, vor(seg.flags == 0, seg.flags&flagFin != 0))
		}
		pos = pos.Add(l)
		if assigned {
			nxtIsBoundary = vor(nxtIsBoundary, pos == s.sndNxt)
		}
	}
	if s.writeNext == nil {
		wnOK = s.sndNxt == pos // everything was sent
	}
	ok = vand(ok, seenNext)
	ok = vand(ok, wnOK)
	ok = vand(ok, nxtIsBoundary)
	ok = vand(ok, pos == s.sndNxtList)
	// the congestion-window gate counts `outstanding`: it is the number of sent, unacknowledged data segments
	ok = vand(ok, s.outstanding == before)
	return ok
}

// every packet captured since the last reset carries stream bytes at its sequence number,
// fits the peer's window and the maximum payload size
func (c *vhConn) vhCheckSent(sndUna seqnum.Value, wnd seqnum.Size, mss int) (dataSegs int) {
	for _, p := range c.net.Sent {
		d := vhDecode(p)
		vassert(d.sport == 80 && d.dport == 1234, "segments carry the connection's ports")
		if len(d.payload) > 0 {
			dataSegs++
			vassert(vhConsistent(seqnum.Value(d.seq), d.payload), "every byte sent is the stream byte of its sequence number")
			vassert(len(d.payload) <= mss, "no segment exceeds the maximum payload size (peer MSS / path MTU)")
			end := seqnum.Value(d.seq).Add(seqnum.Size(len(d.payload)))
			vassert(sndUna.Size(end) <= wnd, "no byte is sent beyond the right edge of the peer's window")
		}
	}
	return
}

// C01-O4 / C04-O1,O2 / C05-O6 / C02-O1,O3
func vh_snd_senddata() {
	vclockFreeze() // timing is the subject of the C05 timer obligations
	c := vhEP(1<<20, 1<<20)
	s := c.vhSender()
	vassert(vhInvS(s), "constructed pre-state satisfies InvS")
	una, wnd, mss := s.sndUna, s.sndWnd, s.maxPayloadSize
	room := s.sndCwnd - s.outstanding
	if room < 0 {
		room = 0
	}
	nxt0 := s.sndNxt
	s.sendData()
	n := c.vhCheckSent(una, wnd, mss)
	vassert(n <= room, "at most cwnd - outstanding data segments are sent")
	vassert(vhInvS(s), "sendData keeps InvS (splitting loses or repeats no byte)")
	vassert(nxt0.Size(s.sndNxt) < 1<<20, "sndNxt only moves forward")
	if wnd == 0 {
		vassert(n == 0, "nothing is sent into a closed window")
	}
	if s.sndUna != s.sndNxt {
		vassert(s.resendTimer.enabled(), "with data in flight the retransmit timer is armed")
		vreach("inflight")
	}
	if n > 0 {
		vreach("sent")
	}
	if vparam("progress", 0) == 1 && s.writeNext != nil && s.sndUna == s.sndNxt && s.outstanding < s.sndCwnd {
		// data queued, nothing in flight, cwnd has room: either the window is closed (known
		// finding D5: no persist timer) or something must have been sent
		vassertKnown(false, "data queued with nothing in flight is either sent or a timer is armed (no silent stall)", "D5-no-zero-window-probe", s.sndWnd == 0 || !s.writeNext.sequenceNumber.LessThan(s.sndUna.Add(s.sndWnd)))
	}
}

// C01-O5 / C05: ACK processing from an arbitrary InvS state
func vh_snd_ack() {
	vclockFreeze()
	c := vhEP(1<<20, 1<<20)
	s := c.vhSender()
	una, nxt := s.sndUna, s.sndNxt
	inflight := int(una.Size(nxt))
	ack := vhNear("dack", una, -1, inflight+1)
	seg := newSegmentFromView(&c.e.route, c.e.id, buffer.View{})
	seg.sequenceNumber = c.e.rcv.rcvNxt
	seg.ackNumber = ack
	seg.flags = flagAck
	// the advertised window is tiny (so that it cuts into queued data) or large
	if vnChoice("peerwndkind", 2) == 0 {
		seg.window = seqnum.Size(vnChoice("peerwnd", 4))
	} else {
		seg.window = seqnum.Size(vnU16("peerwnd"))
		vassume(seg.window >= 16)
	}
	s.handleRcvdSegment(seg)
	valid := una.LessThan(ack) && ack.LessThanEq(nxt)
	if valid {
		vassert(s.sndUna == ack, "a valid ACK advances sndUna to the acknowledgement number")
		vassert(vhInvS(s), "ACK processing keeps InvS: the write list starts at the new sndUna with the stream bytes of that position (also for an ACK inside a segment)")
		vreach("acked")
	} else {
		vassert(s.sndUna == una, "an ACK outside (sndUna, sndNxt] does not move sndUna")
		vassert(vhInvS(s), "InvS kept")
		vreach("ignored")
	}
	vassert(s.sndWnd == seg.window, "the peer's window is taken from the segment")
	c.vhCheckSent(s.sndUna, s.sndWnd, s.maxPayloadSize)
	if s.sndUna != s.sndNxt {
		vassert(s.resendTimer.enabled(), "with data in flight the retransmit timer is armed after ACK processing")
	}
}

// C01-O3: bytes accepted by Write are appended to the stream in order; the rest is refused.
func vh_write() {
	vclockFreeze()
	c := vhEP(1<<20, vparam("sndbuf", 6))
	s := c.vhSender()
	e := c.e
	end0 := s.sndNxtList
	used0 := e.sndBufUsed
	n := vnChoice("n", 5)
	data := vhData(end0, n) // the application writes the bytes that define the stream from here on
	got, _, err := e.Write(tcpip.SlicePayload(data), tcpip.WriteOptions{})
	if n == 0 {
		vassert(got == 0 && s.sndNxtList == end0, "an empty write is a no-op")
		return
	}
	if e.sndClosed {
		vassert(got == 0 && err == tcpip.ErrClosedForSend, "writes after shutdown fail with ErrClosedForSend")
		vassert(s.sndNxtList == end0, "a refused write appends nothing")
		vreach("closed")
		return
	}
	avail := e.sndBufSize - used0
	want := n
	if avail <= 0 {
		want = 0
	} else if want > avail {
		want = avail
	}
	vassert(int(got) == want, "Write accepts min(len, free send buffer) bytes")
	if n > 0 && want < n {
		vassert(err == tcpip.ErrWouldBlock, "a short write reports ErrWouldBlock")
		vreach("short")
	}
	vassert(end0.Size(s.sndNxtList) == seqnum.Size(want), "the stream grows by exactly the accepted bytes")
	vassert(vhInvS(s), "accepted bytes are queued in order behind everything written before (InvS)")
	c.vhCheckSent(s.sndUna, s.sndWnd, s.maxPayloadSize)
	if want > 0 {
		vreach("accepted")
	}
}

// C01-O6: a data segment emitted by the sender, parsed by the receiving side's segment.parse,
// is stream-consistent with the same sequence number and length.
func vh_wire() {
	vclockFreeze()
	c := vhEP(1<<20, 1<<20)
	s := c.vhSender()
	s.sendData()
	for _, p := range c.net.Sent {
		hdr := append([]byte{}, p.Hdr...)
		var vv buffer.VectorisedView
		if len(p.Payload) > 0 {
			vv = buffer.NewVectorisedView(len(hdr)+len(p.Payload), []buffer.View{buffer.View(hdr), buffer.View(append([]byte{}, p.Payload...))})
		} else {
			vv = buffer.View(hdr).ToVectorisedView()
		}
		seg := newSegment(&c.e.route, c.e.id, vv)
		vassert(seg.parse(), "an emitted segment parses")
		d := vhDecode(p)
		vassert(uint32(seg.sequenceNumber) == d.seq && uint32(seg.ackNumber) == d.ack && seg.flags == d.flags, "parse recovers sequence, acknowledgement and flags")
		vassert(seg.data.Size() == len(p.Payload) && vhConsistent(seg.sequenceNumber, seg.data.ToView()), "the parsed payload is the stream at the parsed sequence number")
		vreach("parsed")
	}
}
