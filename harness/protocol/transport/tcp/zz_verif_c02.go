package tcp

import (
	"github.com/brewlin/net-protocol/pkg/seqnum"
	tcpip "github.com/brewlin/net-protocol/protocol"
)

// ---------- C02: orderly completion ----------

// O1: shutting down the write side queues exactly one FIN behind all data, later writes
// fail, and the FIN takes the sequence number after the last byte.
func vh_shutdown() {
	vclockFreeze()
	c := vhEP(1<<20, 1<<20)
	s := c.vhSender()
	e := c.e
	vassume(!e.sndClosed)
	end0 := s.sndNxtList
	err := e.Shutdown(tcpip.ShutdownWrite)
	vassert(err == nil && e.sndClosed, "Shutdown(write) closes the send side")
	vassert(e.sndBufInQueue == 1 && e.sndQueue.Front() != nil && e.sndQueue.Front() == e.sndQueue.Back() && e.sndQueue.Front().data.Size() == 0, "exactly one empty (FIN) segment is queued")
	err2 := e.Shutdown(tcpip.ShutdownWrite)
	vassert(err2 == nil && e.sndBufInQueue == 1 && e.sndQueue.Front() == e.sndQueue.Back(), "a second shutdown queues nothing more")
	n, _, werr := e.Write(tcpip.SlicePayload(vhData(end0, 2)), tcpip.WriteOptions{})
	vassert(n == 0 && werr == tcpip.ErrClosedForSend, "writes after shutdown fail with ErrClosedForSend")
	c.net.Sent = nil
	e.handleClose() // what the protocol goroutine does when sndCloseWaker fires
	vassert(s.closed, "the sender is marked closed")
	if s.writeNext != nil {
		vreach("closed-with-unsent-data") // data still waits for the window: the FIN stays queued behind it
	}
	vassert(s.sndNxtList == end0+1, "the FIN consumes exactly one sequence number after the last written byte")
	vassert(vhInvS(s), "the FIN is the last element of the write list (InvS)")
	for _, p := range c.net.Sent {
		d := vhDecode(p)
		if d.flags&flagFin != 0 {
			vassert(seqnum.Value(d.seq) == end0 && len(d.payload) == 0, "the FIN is sent with the sequence number following all data")
			vassert(s.writeNext == nil, "the FIN is sent only after every byte before it was sent")
			vreach("fin-sent")
		}
	}
	c.vhCheckSent(s.sndUna, s.sndWnd, s.maxPayloadSize)
	vreach("shutdown")
}

// O2: after the peer's FIN was consumed no data ever appears.
func vh_rcv_after_fin() {
	vclockFreeze()
	c := vhEP(1<<20, 1<<20)
	e := c.e
	rcvNxt0, _ := c.vhReceiver(0)
	n := vnChoice("len", 3)
	s := c.vhSeg(rcvNxt0, n, 0, flagAck|flagFin)
	e.rcv.handleRcvdSegment(s)
	vassert(e.rcv.closed && e.rcvClosed, "an in-order FIN closes the receive side")
	vassert(e.rcv.rcvNxt == rcvNxt0.Add(seqnum.Size(n)+1), "the FIN consumes one sequence number after its data")
	vassert(len(c.net.Sent) >= 1, "the FIN is acknowledged")
	d := vhDecode(c.net.Sent[len(c.net.Sent)-1])
	vassert(d.ack == uint32(e.rcv.rcvNxt), "the ACK covers the FIN")
	got0 := vhRcvListBytes(e)
	vassert(len(got0) == n && vhConsistent(rcvNxt0, got0), "data carried with the FIN is delivered first")
	// any later segment changes nothing
	s2 := c.vhSeg(seqnum.Value(vnU32("seq2")), 1+vnChoice("len2", 2), 0, vnU8("flags2"))
	e.rcv.handleRcvdSegment(s2)
	vassert(len(vhRcvListBytes(e)) == n && e.rcv.rcvNxt == rcvNxt0.Add(seqnum.Size(n)+1), "after end-of-stream no data ever appears")
	// reads drain the data and then report end-of-stream
	for k := 0; k < 3; k++ {
		e.rcvListMu.Lock()
		_, rerr := e.readLocked()
		e.rcvListMu.Unlock()
		if rerr != nil {
			vassert(rerr == tcpip.ErrClosedForReceive, "after the buffered data reads report end-of-stream")
			vreach("eof")
			break
		}
	}
}

// O7: the protocol goroutine's main loop keeps waiting for events while data or a FIN is
// outstanding or a direction is still open; it terminates (state closed) only when both
// directions are closed and everything was acknowledged - or on an error path that resets.
// Sleeper.Fetch is the wait: scripted wake-ups run the real handlers, an unscripted wait
// ends the explored step.
func vh_mainloop() {
	vclockFreeze()
	c := vhEP(1<<20, 1<<20)
	s := c.vhSender()
	e := c.e
	e.rcv.closed = vnBool("rcvclosed")
	s.closed = vnBool("sndclosed")
	if s.closed {
		vassume(e.sndClosed) // the sender is marked closed only after Shutdown queued the FIN
	}
	e.workMu.Lock()
	switch vnChoice("wake", 4) {
	case 1:
		vfetchPush(0) // sndWaker: handleWrite
	case 2:
		vfetchPush(1) // sndCloseWaker: handleClose
	case 3:
		vfetchPush(4) // resendWaker: retransmit timer
	}
	err := e.protocolMainLoop(false)
	// reached only if the loop terminated instead of waiting
	vassert(err == nil, "the main loop ends without returning an error")
	if e.state == stateError {
		vreach("reset")
		return
	}
	vassert(e.state == stateClosed, "a terminated connection is closed")
	vassert(e.rcv.closed && s.closed && s.sndUna == s.sndNxtList, "the protocol goroutine never stops while a direction is open or written data / the FIN is still unacknowledged")
	vreach("terminated")
}

// The handshake's retransmission loop: every time the SYN timer fires, either the timer is
// armed again and the SYN re-sent, or the connect fails with ErrTimeout - the goroutine never
// goes to sleep with no timer armed and nothing pending (a connect that neither completes
// nor fails).
func vh_handshake_resend() {
	vclockFreeze()
	c := vhEP(1<<16, 1<<16)
	e := c.e
	e.state = stateConnecting
	h, err := newHandshake(e, seqnum.Size(e.rcvBufSize))
	vassert(err == nil, "newHandshake")
	k := vnChoice("timeouts", 7) // the SYN (and each retransmission) is lost k times
	for i := 0; i < k; i++ {
		vfetchPushTimer(wakerForResend)
	}
	vexpectTimerAtBlock()
	c.net.Sent = nil
	herr := h.execute()
	// execute only returns here when it gave up (otherwise the path ends waiting, with the
	// timer armed - checked by the executor at that point)
	vassert(herr == tcpip.ErrTimeout && k == 6, "after the timeouts 1,2,4,8,16,32 s the connect fails with ErrTimeout - not earlier")
	vassert(len(c.net.Sent) == 6, "the SYN was sent once and re-sent after each of the first five timeouts")
	for _, p := range c.net.Sent {
		d := vhDecode(p)
		vassert(d.flags == flagSyn && seqnum.Value(d.seq) == h.iss, "every retransmission is the same SYN")
	}
	vreach("gave-up")
}
