package tcp

import (
	"github.com/brewlin/net-protocol/pkg/buffer"
	"github.com/brewlin/net-protocol/pkg/seqnum"
	tcpip "github.com/brewlin/net-protocol/protocol"
	"github.com/brewlin/net-protocol/protocol/header"
	"github.com/brewlin/net-protocol/stack"
)

// ---------- C03: handshake ----------

func (c *vhConn) vhHandshakeSeg() *segment {
	e := c.e
	s := newSegmentFromView(&e.route, e.id, buffer.View(vnBytes("payload", vnChoice("plen", 2))))
	s.sequenceNumber = seqnum.Value(vnU32("seq"))
	s.ackNumber = seqnum.Value(vnU32("ack"))
	s.flags = vnU8("flags")
	s.window = seqnum.Size(vnU16("wnd"))
	// options as the peer put them on the wire: a few arbitrary bytes or one of the
	// well-formed sets
	switch vhPick("optkind", 3) {
	case 0:
	case 1:
		s.options = vnBytes("opts", vparam("optbytes", 2))
	case 2:
		o := header.TCPSynOptions{MSS: vnU16("mss"), WS: []int{-1, 0, 14}[vnChoice("ws", 3)], TS: vnBool("ts"), TSVal: vnU32("tsval"), TSEcr: vnU32("tsecr"), SACKPermitted: vnBool("sackp")}
		s.options = append([]byte{}, makeSynOptions(o)...)
	}
	s.parsedOptions = header.ParseTCPOptions(s.options)
	return s
}

// exactly the RST|ACK answer to segment s with the given sequence number
func (c *vhConn) vhOneReset(s *segment, seq seqnum.Value) bool {
	if len(c.net.Sent) != 1 {
		return false
	}
	d := vhDecode(c.net.Sent[0])
	return d.flags == flagRst|flagAck && d.seq == uint32(seq) && d.ack == uint32(s.sequenceNumber.Add(s.logicalLen())) && len(d.payload) == 0
}

// O1: active open
func vh_syn_sent() {
	vclockFreeze()
	c := vhEP(1<<16, 1<<16)
	e := c.e
	e.state = stateConnecting
	h, err := newHandshake(e, seqnum.Size(e.rcvBufSize))
	vassert(err == nil && h.state == handshakeSynSent && h.flags == flagSyn && h.active, "newHandshake starts an active open in SYN-SENT")
	iss := h.iss
	s := c.vhHandshakeSeg()
	c.net.Sent = nil
	herr := h.handleSegment(s)
	syn, ack, rst := s.flagIsSet(flagSyn), s.flagIsSet(flagAck), s.flagIsSet(flagRst)
	acksSyn := s.ackNumber == iss+1
	vassert((h.state == handshakeCompleted) == vand(vand(syn, ack), vand(!rst, acksSyn)), "an active open completes only on a SYN-ACK that acknowledges exactly its SYN")
	if rst {
		vassert(len(c.net.Sent) == 0, "a reset is never answered")
		vassert((herr == tcpip.ErrConnectionRefused) == (ack && acksSyn), "a reset refuses the connection only if it acknowledges the SYN")
		vassert(h.state == handshakeSynSent, "a reset leaves the handshake state alone")
		vreach("rst")
		return
	}
	vassert(herr == nil, "non-reset segments produce no error")
	if ack && !acksSyn {
		vassert(c.vhOneReset(s, s.ackNumber), "a segment acknowledging anything else is answered by one reset whose sequence number is that acknowledgement number")
		vassert(h.state == handshakeSynSent, "and creates no connection")
		vreach("bad-ack")
		return
	}
	if h.state == handshakeCompleted {
		vassert(len(c.net.Sent) == 1, "the SYN-ACK is acknowledged once")
		d := vhDecode(c.net.Sent[0])
		vassert(d.flags == flagAck && d.seq == uint32(iss+1) && d.ack == uint32(s.sequenceNumber+1), "the final ACK carries iss+1 and acknowledges the peer's SYN")
		vassert(h.mss >= 1, "the peer MSS taken from the SYN is at least 1")
		vreach("completed")
		return
	}
	if syn {
		vassert(h.state == handshakeSynRcvd && len(c.net.Sent) == 1, "a bare SYN (simultaneous open) is answered by a SYN-ACK")
		d := vhDecode(c.net.Sent[0])
		vassert(d.flags == flagSyn|flagAck && d.seq == uint32(iss) && d.ack == uint32(s.sequenceNumber+1), "the SYN-ACK repeats iss and acknowledges the peer's SYN")
		vreach("simultaneous")
		return
	}
	vassert(h.state == handshakeSynSent && len(c.net.Sent) == 0, "anything else is ignored")
	vreach("ignored")
}

// O2: passive open (SYN-RCVD)
func vh_syn_rcvd() {
	vclockFreeze()
	c := vhEP(1<<16, 1<<16)
	e := c.e
	e.state = stateConnecting
	h, _ := newHandshake(e, seqnum.Size(e.rcvBufSize))
	iss, irs := seqnum.Value(vnU32("iss")), seqnum.Value(vnU32("irs"))
	opts := header.TCPSynOptions{MSS: 1460, WS: int(vnChoice("peerws", 3)) - 1, TS: vnBool("tsok")}
	e.maybeEnableTimestamp(&opts)
	h.resetToSynRcvd(iss, irs, &opts)
	s := c.vhHandshakeSeg()
	c.net.Sent = nil
	herr := h.handleSegment(s)
	syn, ack, rst := s.flagIsSet(flagSyn), s.flagIsSet(flagAck), s.flagIsSet(flagRst)
	acksSyn := s.ackNumber == iss+1
	badSyn := vand(syn, s.sequenceNumber != irs)
	tsOK := vor(!e.sendTSOk, s.parsedOptions.TS)
	vassert((h.state == handshakeCompleted) == vand(vand(ack, !rst), vand(vand(acksSyn, !badSyn), tsOK)), "a passive open completes only on an ACK that acknowledges exactly the sequence number the stack chose")
	if rst {
		vassert(len(c.net.Sent) == 0, "a reset is never answered")
		vassert((herr == tcpip.ErrConnectionRefused) == s.sequenceNumber.InWindow(irs+1, h.rcvWnd), "a reset is honoured only inside the receive window")
		vreach("rst")
		return
	}
	if ack && !acksSyn {
		vassert(c.vhOneReset(s, s.ackNumber), "a handshake segment acknowledging anything else is answered by one reset whose sequence number is that acknowledgement number")
		vassert(h.state == handshakeSynRcvd && herr == nil, "and creates no connection")
		vreach("bad-ack")
		return
	}
	if badSyn {
		seq := seqnum.Value(0)
		if ack {
			seq = s.ackNumber
		}
		vassert(len(c.net.Sent) >= 1, "a SYN with a different sequence number is reset")
		d := vhDecode(c.net.Sent[0])
		vassert(d.flags == flagRst|flagAck && d.seq == uint32(seq), "the reset takes its sequence number from the acknowledgement (0 without ACK)")
		vassert(herr == tcpip.ErrInvalidEndpointState && h.state != handshakeCompleted, "the passive handshake is abandoned")
		vreach("bad-syn")
		return
	}
	if h.state == handshakeCompleted {
		vassert(len(c.net.Sent) == 0 && herr == nil, "completion sends nothing further")
		vreach("completed")
	} else {
		vassert(len(c.net.Sent) == 0, "other segments are ignored")
		vreach("ignored")
	}
}

// O5: segments for which no socket exists
func vh_unknown_dest() {
	c := vhEP(16, 16)
	n := 20 + vnChoice("extra", 6)
	b := vnBytes("tcp", n)
	split := 0
	if vnBool("split") {
		split = 20
	}
	var vv buffer.VectorisedView
	if split > 0 && split < n {
		vv = buffer.NewVectorisedView(n, []buffer.View{buffer.View(b[:split]), buffer.View(b[split:])})
	} else {
		vv = buffer.View(b).ToVectorisedView()
	}
	p := &protocol{}
	id := stack.TransportEndpointID{LocalPort: vhBE16(b, 2), LocalAddress: vhLocal, RemotePort: vhBE16(b, 0), RemoteAddress: vhRemote}
	c.net.Sent = nil
	handled := p.HandleUnknownDestinationPacket(&c.e.route, id, vv)
	doff := int(b[12]>>4) * 4
	firstLen := n
	if split > 0 && split < n {
		firstLen = split
	}
	parsable := doff >= 20 && doff <= firstLen
	flags := b[13]
	if !parsable {
		vassert(!handled && len(c.net.Sent) == 0, "an unparsable segment is dropped silently")
		vreach("unparsable")
		return
	}
	vassert(handled, "a parsable segment is consumed")
	if flags&flagRst != 0 {
		vassert(len(c.net.Sent) == 0, "a reset is never answered")
		vreach("rst")
		return
	}
	vassert(len(c.net.Sent) == 1, "a segment for which no socket exists is answered by exactly one reset")
	d := vhDecode(c.net.Sent[0])
	wantSeq := uint32(0)
	if flags&flagAck != 0 {
		wantSeq = vhBE32(b, 8)
	}
	ll := uint32(n - doff)
	if flags&flagSyn != 0 {
		ll++
	}
	if flags&flagFin != 0 {
		ll++
	}
	vassert(d.flags == flagRst|flagAck && d.seq == wantSeq && d.ack == vhBE32(b, 4)+ll, "the reset acknowledges the segment; its sequence number is the acknowledgement field (0 without ACK)")
	vassert(d.sport == vhBE16(b, 2) && d.dport == vhBE16(b, 0) && len(d.payload) == 0, "the reset goes back to the sender's port")
	vreach("reset")
}

// O6: SYN options produced by the stack parse back
func vh_synopts() {
	o := header.TCPSynOptions{MSS: vnU16("mss"), WS: int(vnChoice("ws", 16)) - 1, TS: vnBool("ts"), TSVal: vnU32("tsval"), TSEcr: vnU32("tsecr"), SACKPermitted: vnBool("sackp")}
	vassume(o.MSS != 0)
	b := makeSynOptions(o)
	vassert(len(b)%4 == 0 && len(b) <= 40, "SYN options are padded to 32 bits and fit the header")
	isAck := vnBool("isack")
	p := header.ParseSynOptions(b, isAck)
	vassert(p.MSS == o.MSS && p.WS == o.WS && p.TS == o.TS && p.SACKPermitted == o.SACKPermitted, "every option of the SYN parses back")
	if o.TS {
		vassert(p.TSVal == o.TSVal && vimplies(isAck, p.TSEcr == o.TSEcr), "timestamp values parse back")
	}
	vreach("synopts")
}

// O3: listener dispatch
func (c *vhConn) vhListener() (*endpoint, *listenContext) {
	e := c.e
	e.state = stateListen
	e.acceptedChan = make(chan *endpoint, 4)
	ctx := newListenContext(c.st, 1<<16, false, header.IPv4ProtocolNumber)
	return e, ctx
}

func vh_listen_dispatch() {
	vclockFreeze()
	c := vhEP(1<<16, 1<<16)
	e, ctx := c.vhListener()
	s := c.vhHandshakeSeg()
	vassume(s.flags != flagSyn && s.flags != flagAck)
	c.net.Sent = nil
	e.handleListenSegment(ctx, s)
	vassert(len(c.net.Sent) == 0 && len(e.acceptedChan) == 0 && vghostGet("go") == 0, "a listener reacts only to pure SYN and pure ACK segments")
	vreach("ignored")
}

func vh_listen_syn() {
	vclockFreeze()
	c := vhEP(1<<16, 1<<16)
	e, ctx := c.vhListener()
	s := c.vhHandshakeSeg()
	s.flags = flagSyn
	flood := vnBool("flood")
	synRcvdCount.value = 0
	if flood {
		synRcvdCount.value = SynRcvdCountThreshold
	}
	c.net.Sent = nil
	e.handleListenSegment(ctx, s)
	vassert(len(e.acceptedChan) == 0, "a SYN alone never yields a connection")
	if flood {
		vassert(vghostGet("go") == 0 && len(c.net.Sent) == 1, "under SYN flood the listener answers statelessly with a SYN-ACK")
		d := vhDecode(c.net.Sent[0])
		vassert(d.flags == flagSyn|flagAck && d.ack == uint32(s.sequenceNumber+1), "the cookie SYN-ACK acknowledges the SYN")
		vreach("cookie-synack")
	} else {
		vassert(vghostGet("go") == 1 && len(c.net.Sent) == 0, "normally a handshake goroutine is started for the SYN")
		vreach("handshake-started")
	}
}

// O4: SYN cookies
func vh_cookie() {
	c := vhEP(1<<16, 1<<16)
	_, ctx := c.vhListener()
	id := stack.TransportEndpointID{LocalPort: vnU16("lport"), LocalAddress: vhLocal, RemotePort: vnU16("rport"), RemoteAddress: vhRemote}
	seq := seqnum.Value(vnU32("seq"))
	data := uint32(vnChoice("mssidx", 4))
	cookie := ctx.createCookie(id, seq, data) // reads the slot clock once
	got, ok := ctx.isCookieValid(id, cookie, seq) // reads it again
	vassert(vimplies(ok, got == data), "a valid cookie returns the MSS index it was created with")
	vreach("cookie")
}

func vh_cookie_ack() {
	vclockFreeze()
	c := vhEP(1<<16, 1<<16)
	e, ctx := c.vhListener()
	s := c.vhHandshakeSeg()
	s.flags = flagAck
	// the ACK that completes the handshake may already carry the first bytes of the stream
	// (the bare ACK was lost and the first data segment validates the cookie)
	if k := vnChoice("ackdata", 3); k > 0 {
		s.data = buffer.NewVectorisedView(k, []buffer.View{buffer.View(vhData(s.sequenceNumber, k))})
	}
	c.net.Sent = nil
	e.handleListenSegment(ctx, s)
	if len(e.acceptedChan) == 1 {
		n := <-e.acceptedChan
		vassert(n.snd.sndUna == s.ackNumber && n.rcv.rcvNxt == s.sequenceNumber, "a connection created from a cookie ACK continues at exactly the acknowledged and received sequence numbers")
		vassert(len(vhRcvListBytes(n)) == 0 || vhConsistent(s.sequenceNumber, vhRcvListBytes(n)), "bytes carried by that ACK are either delivered as the head of the stream or left to be retransmitted, never skipped")
		vassert(n.state == stateConnected && n.snd.maxPayloadSize >= 1, "the endpoint is connected")
		vreach("accepted")
	} else {
		vassert(len(e.acceptedChan) == 0, "at most one connection per ACK")
		vreach("dropped")
	}
	vassert(len(c.net.Sent) == 0, "a listener in cookie mode sends nothing in response to an ACK")
}

// C07: arbitrary bytes handed to a TCP endpoint (first view >= 20 bytes, as the NIC guarantees)
func vh_tcp_arbitrary() {
	c := vhEP(1<<16, 1<<16)
	c.e.rcv = newReceiver(c.e, 0, 1<<16, 0)
	c.e.snd = newSender(c.e, 0, 0, 1<<16, 1460, 0)
	n := 20 + vnChoice("extra", vparam("tcpextra", 5))
	b := vnBytes("seg", n)
	var vv buffer.VectorisedView
	if n > 22 && vnBool("split") {
		vv = buffer.NewVectorisedView(n, []buffer.View{buffer.View(b[:22]), buffer.View(b[22:])})
	} else {
		vv = buffer.View(b).ToVectorisedView()
	}
	c.e.HandlePacket(&c.e.route, c.e.id, vv)
	if !c.e.segmentQueue.empty() {
		s := c.e.segmentQueue.dequeue()
		vassert(s.data.Size() <= n-20 && len(s.options) <= 40, "a queued segment's payload and options lie inside the packet")
		vreach("queued")
	} else {
		vreach("dropped")
	}
}

// O4 (exactness): a cookie is accepted only if it is bit-for-bit the cookie the listener
// would create for the data it returns, in the time slot embedded in it.
func vh_cookie_exact() {
	c := vhEP(1<<16, 1<<16)
	_, ctx := c.vhListener()
	id := stack.TransportEndpointID{LocalPort: vnU16("lport"), LocalAddress: vhLocal, RemotePort: vnU16("rport"), RemoteAddress: vhRemote}
	cookie := seqnum.Value(vnU32("cookie"))
	seq := seqnum.Value(vnU32("seq"))
	got, ok := ctx.isCookieValid(id, cookie, seq)
	if ok {
		h0 := ctx.cookieHash(id, 0, 0)
		v := uint32(cookie) - h0 - uint32(seq)
		cts := v >> tsOffset
		want := h0 + uint32(seq) + (cts << tsOffset) + ((ctx.cookieHash(id, cts, 1) + got) & hashMask)
		vassert(got <= hashMask, "the recovered data fits the cookie's data field")
		vassert(uint32(cookie) == want, "a cookie is accepted only if it is exactly the cookie the listener would create for the returned data in its embedded time slot (all 24 hash bits are verified)")
		vreach("valid")
	} else {
		vreach("invalid")
	}
}

// vhRecHash records what is fed to the cookie hasher.
type vhRecHash struct{ in []byte }

func (h *vhRecHash) Write(p []byte) (int, error) { h.in = append(h.in, p...); return len(p), nil }
func (h *vhRecHash) Sum(b []byte) []byte        { return append(b, make([]byte, 20)...) }
func (h *vhRecHash) Reset()                     { h.in = nil }
func (h *vhRecHash) Size() int                  { return 20 }
func (h *vhRecHash) BlockSize() int             { return 64 }

// The SYN cookie is a keyed hash of the WHOLE connection identity: what the real cookieHash
// feeds to the hasher is local port, remote port, timestamp, the nonce, local address, remote
// address - each in full (the hash itself is opaque to the solver; its input is not).
func vh_cookie_input() {
	c := vhEP(1<<16, 1<<16)
	_, l := c.vhListener()
	rec := &vhRecHash{}
	l.hasher = rec
	id := stack.TransportEndpointID{LocalPort: vnU16("lport"), RemotePort: vnU16("rport"),
		LocalAddress: tcpip.Address(vnString("laddr", 4)), RemoteAddress: tcpip.Address(vnString("raddr", 4))}
	ts := vnU32("ts")
	ni := vnChoice("nonce", 2)
	l.cookieHash(id, ts, ni)
	want := []byte{byte(id.LocalPort >> 8), byte(id.LocalPort), byte(id.RemotePort >> 8), byte(id.RemotePort), byte(ts >> 24), byte(ts >> 16), byte(ts >> 8), byte(ts)}
	want = append(want, l.nonce[ni][:]...)
	want = append(want, []byte(id.LocalAddress)...)
	want = append(want, []byte(id.RemoteAddress)...)
	vassert(len(rec.in) == len(want), "the hasher is fed ports, timestamp, nonce and both addresses")
	same := true
	for i := range want {
		if i < len(rec.in) && rec.in[i] != want[i] {
			same = false
		}
	}
	vassert(same, "the cookie covers the whole 4-tuple: local port, remote port, timestamp, nonce, local address, remote address, each in full")
	vreach("cookie-input")
}
