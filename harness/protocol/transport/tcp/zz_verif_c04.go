package tcp

import (
	tcpip "github.com/brewlin/net-protocol/protocol"
	"sync/atomic"

	"github.com/brewlin/net-protocol/pkg/buffer"
	"github.com/brewlin/net-protocol/pkg/seqnum"
	"github.com/brewlin/net-protocol/protocol/header"
)

// ---------- C04: windows and MSS ----------

// O4: the advertised right edge. Two advertisements with an arbitrary consume/read step in
// between: rcvAcc never decreases, the advertised edge never exceeds rcvAcc, and (literal
// statement) the advertised edge never moves left.
func vh_sendparams() {
	c := vhEP(16, 16)
	e := c.e
	rcvNxt := seqnum.Value(vnU32("rcvNxt"))
	wnd := seqnum.Size(vnU32("wnd"))
	vassume(wnd < 1<<30)
	if vparam("near", 0) == 1 {
		// C14, "consequently" clause: the receive sequence space sits on the 2^31 or the 2^32
		// boundary (within 4096 either side), small windows
		vassume(uint32(rcvNxt)+0x1000 < 0x2000 || uint32(rcvNxt)-0x7ffff000 < 0x2000)
		vassume(wnd < 1<<16)
	}
	scale := uint8(vhPick("scale", 15))
	e.rcv = newReceiver(e, rcvNxt-1, wnd, scale)
	e.rcvBufSize = int(vnU32("bufsize"))
	e.rcvBufUsed = int(vnU32("bufused"))
	vassume(e.rcvBufSize >= 0 && e.rcvBufSize < 1<<30 && e.rcvBufUsed >= 0 && e.rcvBufUsed < 1<<30)
	acc0 := e.rcv.rcvAcc
	nxt1, w1 := e.rcv.getSendParams()
	acc1 := e.rcv.rcvAcc
	edge1 := nxt1.Add(w1 << scale)
	vassert(nxt1 == rcvNxt, "the acknowledgement number advertised is rcvNxt")
	vassert(rcvNxt.Size(acc0) <= rcvNxt.Size(acc1), "the accepted right edge never decreases")
	vassert(nxt1.Size(edge1) <= nxt1.Size(acc1), "the advertised window never exceeds what the receiver accepts")
	// an arbitrary step: k bytes consumed in order (inside the accepted window), r bytes read
	k := seqnum.Size(vnU32("consumed"))
	vassume(k <= rcvNxt.Size(acc1))
	e.rcv.rcvNxt = rcvNxt.Add(k)
	e.rcvBufUsed += int(k)
	r := int(vnU32("read"))
	vassume(r >= 0 && r <= e.rcvBufUsed)
	e.rcvBufUsed -= r
	nxt2, w2 := e.rcv.getSendParams()
	acc2 := e.rcv.rcvAcc
	edge2 := nxt2.Add(w2 << scale)
	vassert(nxt2.Size(acc1) <= nxt2.Size(acc2), "the accepted right edge never decreases across a consume/read step")
	vassert(nxt2.Size(edge2) <= nxt2.Size(acc2), "the advertised window never exceeds what the receiver accepts (second advertisement)")
	// literal: the advertised right edge never moves left
	back := edge2.Size(edge1) // how far edge1 is ahead of edge2
	vassertKnown(!edge2.LessThan(edge1), "the advertised right edge never moves left", "D7-window-edge-truncation", back < seqnum.Size(1)<<scale)
	vreach("params")
}

// O2: the maximum payload size honours the peer's MSS and the path MTU and only shrinks.
func vh_mss() {
	vclockFreeze()
	c := vhEP(1<<20, 1<<20)
	e := c.e
	mtu := vnU32("mtu")
	vassume(mtu >= 21 && mtu < 1<<16)
	c.net.Mtu = mtu
	e.sendTSOk = vnBool("ts")
	e.rcv = newReceiver(e, 0, 1<<16, 0)
	mss := vnU16("mss")
	vassume(mss >= 1) // ParseSynOptions never yields MSS 0 (checked in C03/C15)
	s := newSender(e, 0, 0, 1<<16, mss, 0)
	e.snd = s
	optLen := 0
	if e.sendTSOk {
		optLen = 12
	}
	limit := int(mtu) - 20 - optLen
	m0 := s.maxPayloadSize
	vassert(m0 <= int(mss), "the maximum payload never exceeds the peer's MSS")
	vassert(m0 <= limit || m0 == 1, "the maximum payload fits the path MTU minus TCP header and options (minimum 1)")
	vassert(m0 >= 1, "the maximum payload is at least one byte")
	mtu2 := vnU32("mtu2")
	vassume(mtu2 >= 21 && mtu2 < 1<<16)
	s.updateMaxPayloadSize(int(mtu2), 0)
	vassert(s.maxPayloadSize <= m0, "a packet-too-big notification never grows the payload size")
	vassert(s.maxPayloadSize <= int(mtu2)-20-optLen || s.maxPayloadSize == 1 || s.maxPayloadSize == m0, "after packet-too-big the payload fits the new MTU")
	vreach("mss")
}

// O3: the peer's window is scaled by the negotiated shift before the sender uses it.
func vh_wndscale() {
	vclockFreeze()
	c := vhEP(1<<20, 1<<20)
	s := c.vhSender()
	e := c.e
	s.sndWndScale = uint8(7 * vnChoice("scale", 3))
	seg := newSegmentFromView(&e.route, e.id, buffer.View{})
	seg.sequenceNumber = e.rcv.rcvNxt
	seg.ackNumber = s.sndUna
	seg.flags = vnU8("flags")
	vassume(seg.flags&flagSyn == 0)
	w := vnU16("wnd")
	seg.window = seqnum.Size(w)
	vassert(e.segmentQueue.enqueue(seg), "segment queued")
	wnd0 := s.sndWnd
	err := e.handleSegments()
	if seg.flags&flagRst != 0 {
		vassert(err != nil || s.sndWnd == wnd0, "a reset does not update the window")
		vreach("rst")
		return
	}
	if seg.flags&flagAck != 0 {
		vassert(s.sndWnd == seqnum.Size(w)<<s.sndWndScale, "the advertised window is shifted by the negotiated scale before use")
		vreach("scaled")
	} else {
		vassert(s.sndWnd == wnd0, "segments without ACK do not update the window")
		vreach("noack")
	}
}

// O6: the window closes when the application stops reading and the reopening is signalled.
func vh_zero_window() {
	vclockFreeze()
	size := 4 + vnChoice("bufsize", 3)
	c := vhEP(size, 1<<20)
	e := c.e
	readPos := seqnum.Value(vnU32("readPos"))
	scale := uint8(vnChoice("scale", 3))
	e.rcv = newReceiver(e, readPos-1, seqnum.Size(size), scale)
	e.snd = newSender(e, 1, readPos-1, 1<<16, 1460, 0)
	// fill the buffer with segments of 1..3 bytes until no space is left
	pos := readPos
	for e.rcvBufUsed < size {
		n := 1 + vnChoice("len", 3)
		e.readyToRead(c.vhSeg(pos, n, 0, flagAck))
		pos = pos.Add(seqnum.Size(n))
		e.rcv.rcvNxt = pos
	}
	_, w := e.rcv.getSendParams()
	vassert(w == 0, "with a full receive buffer the advertised window is closed")
	atomic.StoreUint32(&e.notifyFlags, 0)
	c.net.Sent = nil
	e.rcvListMu.Lock()
	wasZero := e.zeroReceiveWindow(scale)
	v, err := e.readLocked()
	nowZero := e.zeroReceiveWindow(scale)
	e.rcvListMu.Unlock()
	vassert(err == nil && len(v) > 0 && wasZero, "a read succeeds on the full buffer")
	notified := atomic.LoadUint32(&e.notifyFlags)&notifyNonZeroReceiveWindow != 0
	vassert(notified == !nowZero, "the protocol goroutine is told exactly when the window goes from zero to non-zero")
	if notified {
		e.rcv.nonZeroWindow()
		vassert(len(c.net.Sent) == 1, "the reopened window is announced with an ACK (window update)")
		d := vhDecode(c.net.Sent[0])
		vassert(d.wnd != 0, "the window update advertises a non-zero window")
		vreach("reopened")
	} else {
		vreach("still-closed")
	}
}

// O3 (handshake part): the window of a SYN segment is never scaled; the window of the final
// ACK is scaled by the negotiated shift.
func vh_handshake_wnd() {
	vclockFreeze()
	c := vhEP(1<<16, 1<<16)
	e := c.e
	e.state = stateConnecting
	h, _ := newHandshake(e, seqnum.Size(e.rcvBufSize))
	passive := vnBool("passive")
	if passive {
		opts := header.TCPSynOptions{MSS: 1460, WS: vnChoice("peerws", 16) - 1}
		h.resetToSynRcvd(seqnum.Value(vnU32("iss")), seqnum.Value(vnU32("irs")), &opts)
	} else {
		h.sndWndScale = vnChoice("peerws", 16) - 1 // scale learnt from an earlier crossing SYN
	}
	ws := h.sndWndScale
	s := newSegmentFromView(&e.route, e.id, buffer.View{})
	s.sequenceNumber = seqnum.Value(vnU32("seq"))
	s.ackNumber = seqnum.Value(vnU32("ack"))
	s.flags = vnU8("flags")
	w := vnU16("wnd")
	s.window = seqnum.Size(w)
	h.handleSegment(s)
	if s.flags&flagSyn != 0 || ws <= 0 {
		vassert(h.sndWnd == seqnum.Size(w), "the window field of a SYN (or without negotiated scaling) is used unscaled")
		vreach("unscaled")
	} else {
		vassert(h.sndWnd == seqnum.Size(w)<<uint(ws), "the window of a non-SYN handshake segment is scaled by the negotiated shift")
		vreach("scaled")
	}
}

// SYN cookies carry the peer's MSS as an index into mssTable: the MSS restored from the cookie
// must not exceed what the peer announced (else segments larger than its MSS are sent), and
// should be the largest table entry that fits.
func vh_cookie_mss() {
	mss := vnU16("mss")
	idx := encodeMSS(mss)
	vassert(int(idx) < len(mssTable), "the encoded MSS is a valid table index")
	got := mssTable[idx]
	vassertKnown(got <= mss, "the MSS restored from a SYN cookie never exceeds the MSS the peer announced", "D12-cookie-mss-floor", mss < mssTable[0])
	for _, t := range mssTable {
		if t <= mss {
			vassert(got >= t, "and it is the largest table entry not above it")
		}
	}
	vreach("cookie-mss")
}

// C04 (the window reopens): whatever receive buffer size the application sets on an
// established connection - also one smaller than one unit of OUR window scale, and whatever
// the PEER's scale is - an empty buffer can still be advertised as a non-zero window.
func vh_rcvbuf_option() {
	c := vhEP(16, 16)
	e := c.e
	scale := uint8(vnChoice("scale", 15))
	peer := vnChoice("peerscale", 15)
	rcvNxt := seqnum.Value(vnU32("rcvNxt"))
	e.rcv = newReceiver(e, rcvNxt-1, 1<<16, scale)
	e.snd = newSender(e, 1, rcvNxt-1, 1<<16, 1460, peer)
	e.rcvBufUsed = 0
	size := vnU32("size")
	vassume(size < 1<<30)
	err := e.SetSockOpt(tcpip.ReceiveBufferSizeOption(size))
	vassert(err == nil, "the option is accepted")
	e.rcvListMu.Lock()
	zero := e.zeroReceiveWindow(scale)
	e.rcvListMu.Unlock()
	vassert(!zero, "with an empty buffer the window to advertise is not zero, whatever size was requested")
	_, w := e.rcv.getSendParams()
	vassert(w > 0, "and the receiver advertises a non-zero window")
	vreach("rcvbuf")
}
