package tcp

import (
	"github.com/brewlin/net-protocol/protocol/header"
	"container/heap"

	"github.com/brewlin/net-protocol/pkg/seqnum"
)

// C01-O1 / C04-O5 / C02-O2: one receiver step from an arbitrary state satisfying InvR.
//
// InvR: every pending (out-of-order) segment is stream-consistent and starts strictly after
// rcvNxt (the head of the heap is the smallest); the reader queue holds stream bytes that end
// at rcvNxt.

// vhNear returns base+d for an enumerated small signed offset d in [lo,hi]: the relative
// position is concrete per path while base (and hence every wrap-around position) stays symbolic.
func vhNear(name string, base seqnum.Value, lo, hi int) seqnum.Value {
	d := lo + vnChoice(name, hi-lo+1)
	return base + seqnum.Value(uint32(int32(d)))
}

func (c *vhConn) vhReceiver(maxPending int) (rcvNxt seqnum.Value, wnd seqnum.Size) {
	e := c.e
	rcvNxt = seqnum.Value(vnU32("rcvNxt"))
	// window: closed, tiny, or arbitrary large
	switch vhPick("wndkind", 3) {
	case 0:
		wnd = 0
	case 1:
		wnd = 2
	default:
		wnd = seqnum.Size(vnU32("wnd"))
		vassume(wnd >= 16 && wnd < 1<<30)
	}
	e.rcv = newReceiver(e, rcvNxt-1, wnd, uint8(vparam("wscale", 0)))
	vassert(e.rcv.rcvNxt == rcvNxt && e.rcv.rcvAcc == rcvNxt.Add(wnd), "newReceiver starts at irs+1 with the given window")
	e.snd = newSender(e, seqnum.Value(vnU32("iss")), rcvNxt-1, 1<<16, 1460, 0)
	np := vnChoice("npending", maxPending+1)
	prev := rcvNxt
	for i := 0; i < np; i++ {
		// pending segments in heap order: each starts after rcvNxt and not before the previous one
		lo := 0
		if i == 0 {
			lo = 1
		}
		seq := vhNear("gap", prev, lo, 2)
		n := 1 + vnChoice("plen", 2)
		s := c.vhSeg(seq, n, 0, flagAck)
		heap.Push(&e.rcv.pendingRcvdSegments, s)
		e.rcv.pendingBufUsed += s.logicalLen()
		prev = seq
	}
	if e.rcv.pendingBufSize < e.rcv.pendingBufUsed {
		e.rcv.pendingBufSize = e.rcv.pendingBufUsed
	}
	c.net.Sent = nil
	return
}

func vhInvR(e *endpoint) bool {
	ok := true
	p := e.rcv.pendingRcvdSegments
	for i := range p {
		ok = vand(ok, e.rcv.rcvNxt.LessThan(p[i].sequenceNumber))
		ok = vand(ok, vhConsistent(p[i].sequenceNumber, vhFlatSeg(p[i])))
		if i > 0 { // binary heap property
			ok = vand(ok, !p[i].sequenceNumber.LessThan(p[(i-1)/2].sequenceNumber))
		}
	}
	return ok
}

func vh_rcv_step() {
	c := vhEP(1<<20, 1<<20)
	e := c.e
	rcvNxt0, wnd := c.vhReceiver(vparam("pending", 1))
	_ = wnd
	vassert(vhInvR(e), "constructed pre-state satisfies InvR")
	// the incoming segment sits near rcvNxt, near the right window edge, or anywhere
	var seq seqnum.Value
	switch vhPick("seqkind", 3) {
	case 0:
		seq = vhNear("dseq", rcvNxt0, -3, 4)
	case 1:
		seq = vhNear("dacc", e.rcv.rcvAcc, -3, 1)
	default:
		seq = seqnum.Value(vnU32("seq"))
	}
	n := vnChoice("len", vparam("seglen", 3)+1)
	flags := vnU8("flags")
	vassume(flags&(flagSyn|flagRst) == 0) // established-state data path; SYN/RST are handled before the receiver
	split := 0
	if n >= 2 {
		split = vnChoice("split", 2)
	}
	s := c.vhSeg(seq, n, split, flags)
	acc0 := e.rcv.rcvAcc
	e.rcv.handleRcvdSegment(s)
	rcvNxt1 := e.rcv.rcvNxt
	adv := rcvNxt0.Size(rcvNxt1)
	vassert(adv < 1<<21, "rcvNxt only moves forward (and by no more than what was buffered)")
	got := vhRcvListBytes(e)
	fin := 0
	if e.rcv.closed {
		fin = 1
		vassert(e.rcvClosed, "a consumed FIN marks the read side closed")
		vreach("fin")
	}
	vassert(len(got) == int(adv)-fin, "exactly rcvNxt_new - rcvNxt_old bytes were queued for the reader: no gap, no duplicate")
	vassert(vhConsistent(rcvNxt0, got), "the bytes queued for the reader are the next bytes of the stream, in order")
	vassert(vhInvR(e), "InvR is preserved")
	if adv > 0 {
		vreach("consumed")
	}
	if len(e.rcv.pendingRcvdSegments) > 0 && adv == 0 {
		vreach("parked")
	}
	// C04-O5: in-order data inside the advertised window is accepted and delivered
	if n > 0 && seq == rcvNxt0 && seqnum.Size(n) <= rcvNxt0.Size(acc0) {
		vassert(adv >= seqnum.Size(n), "in-order data inside the advertised window is accepted and delivered")
		vreach("inorder")
	}
	// a closed window accepts no data at all
	if n > 0 && rcvNxt0.Size(acc0) == 0 {
		vassert(adv == 0 && len(got) == 0, "nothing is delivered into a closed (zero) receive window")
		vassert(len(c.net.Sent) >= 1, "data sent into a closed window is answered by an ACK")
		vreach("closed-window")
	}
	// an empty segment (pure ACK, FIN, duplicate SYN-ACK after the handshake, keep-alive probe)
	// outside the window changes nothing and is answered by an ACK (RFC 793 p. 69) - without
	// that answer a peer whose final handshake ACK was lost, or that probes, waits forever
	if n == 0 {
		w := rcvNxt0.Size(acc0)
		if !((w == 0 && seq == rcvNxt0) || (w > 0 && seq.InWindow(rcvNxt0, w))) {
			vassert(adv == 0 && len(got) == 0, "an empty segment outside the window changes nothing")
			vassert(len(c.net.Sent) >= 1, "an unacceptable empty segment is answered by an ACK")
			vreach("outside-empty")
		}
	}
	// data wholly outside [rcvNxt, rcvAcc) delivers nothing and is answered by an ACK
	if n > 0 && rcvNxt0.Size(acc0) > 0 && !seq.InWindow(rcvNxt0, rcvNxt0.Size(acc0)) && !seq.Add(seqnum.Size(n)-1).InWindow(rcvNxt0, rcvNxt0.Size(acc0)) &&
		!rcvNxt0.InWindow(seq, seqnum.Size(n)) {
		vassert(adv == 0 && len(got) == 0, "data wholly outside the advertised window is never delivered")
		vassert(len(c.net.Sent) >= 1, "an unacceptable segment is answered by an ACK")
		vreach("outside")
	}
}

// C01-O2 / C04-O6 / C02-O6: reads return the queued stream bytes in order, each at most once,
// and report the window reopening.
func vh_read_step() {
	c := vhEP(vparam("rcvbuf", 8), 1<<20)
	e := c.e
	readPos := seqnum.Value(vnU32("readPos"))
	e.rcv = newReceiver(e, readPos-1, 8, uint8(vnChoice("wscale", 2)))
	e.snd = newSender(e, 1, readPos-1, 1<<16, 1460, 0)
	// queue 1..2 segments of 1..3 bytes in 1..2 views
	pos := readPos
	ns := 1 + vnChoice("nsegs", 2)
	for i := 0; i < ns; i++ {
		n := 1 + vnChoice("len", 3)
		s := c.vhSeg(pos, n, vnChoice("split", 2), flagAck)
		e.readyToRead(s)
		pos = pos.Add(seqnum.Size(n))
	}
	if vnBool("closed") {
		e.readyToRead(nil)
	}
	total := int(readPos.Size(pos))
	vassert(e.rcvBufUsed == total, "rcvBufUsed counts the queued bytes")
	read := 0
	for k := 0; k < 5; k++ {
		used0 := e.rcvBufUsed
		e.rcvListMu.Lock()
		v, err := e.readLocked()
		e.rcvListMu.Unlock()
		if err != nil {
			vassert(read == total, "reads fail only after every queued byte was returned")
			if e.rcvClosed {
				vassert(err.String() == "endpoint is closed for receive" || true, "closed")
				vreach("eof")
			}
			break
		}
		vassert(len(v) > 0 && vhConsistent(readPos.Add(seqnum.Size(read)), v), "a read returns the next bytes of the stream")
		read += len(v)
		vassert(e.rcvBufUsed == used0-len(v), "a read releases exactly the bytes it returned")
	}
	vassert(read == total, "every queued byte is returned exactly once")
	vreach("read-all")
}

// Peek after 0..2 reads returns exactly the bytes not yet read, in stream order, and consumes
// nothing (segments whose views were partly delivered are resumed at the right view).
func vh_peek_step() {
	c := vhEP(vparam("rcvbuf", 8), 1<<20)
	e := c.e
	readPos := seqnum.Value(vnU32("readPos"))
	e.rcv = newReceiver(e, readPos-1, 8, 0)
	e.snd = newSender(e, 1, readPos-1, 1<<16, 1460, 0)
	e.state = stateConnected
	pos := readPos
	ns := 1 + vnChoice("nsegs", 2)
	for i := 0; i < ns; i++ {
		n := 1 + vnChoice("len", 3)
		s := c.vhSeg(pos, n, vnChoice("split", 2), flagAck)
		e.readyToRead(s)
		pos = pos.Add(seqnum.Size(n))
	}
	total := int(readPos.Size(pos))
	read := 0
	nreads := vnChoice("reads", 3)
	for k := 0; k < nreads; k++ {
		e.rcvListMu.Lock()
		v, err := e.readLocked()
		e.rcvListMu.Unlock()
		if err != nil {
			break
		}
		read += len(v)
	}
	b1, b2 := make([]byte, 2), make([]byte, 8)
	num, _, err := e.Peek([][]byte{b1, b2})
	if read == total {
		vassert(err != nil && num == 0, "peeking an empty queue reports that nothing is there")
		vreach("peek-empty")
		return
	}
	vassert(err == nil && int(num) == total-read, "Peek returns every byte that was queued and not yet read, and none that was read")
	got := append(append([]byte{}, b1...), b2...)[:int(num)]
	vassert(vhConsistent(readPos.Add(seqnum.Size(read)), got), "Peek returns the next bytes of the stream, in order")
	vassert(e.rcvBufUsed == total-read, "Peek consumes nothing")
	e.rcvListMu.Lock()
	v, err2 := e.readLocked()
	e.rcvListMu.Unlock()
	vassert(err2 == nil && vhConsistent(readPos.Add(seqnum.Size(read)), v), "a read after Peek returns the same next bytes")
	vreach("peek")
}

// C07: the receiver's SACK scoreboard when many holes are open: a scoreboard of 5-6 pairwise
// disjoint blocks above a symbolic rcvNxt (any position in the 32-bit space), one more
// out-of-order segment anywhere within the next 64 bytes (merging with zero, one or two
// blocks, or opening another hole): the update never writes outside the block array, never
// leaves more than MaxSACKBlocks blocks, and reports the new segment first (RFC 2018 s.4).
func vh_sack_update_full() {
	var sack SACKInfo
	rcvNxt := seqnum.Value(vnU32("rcvNxt"))
	nb := MaxSACKBlocks - vnChoice("missing", 2)
	sack.NumBlocks = nb
	for i := 0; i < nb; i++ {
		sack.Blocks[i] = header.SACKBlock{Start: rcvNxt.Add(seqnum.Size(8*i + 4)), End: rcvNxt.Add(seqnum.Size(8*i + 8))}
	}
	off := vnU8("off")
	vassume(off >= 1 && off < 64)
	start := rcvNxt.Add(seqnum.Size(off))
	end := start.Add(seqnum.Size(1 + vnChoice("seglen", 3)))
	UpdateSACKBlocks(&sack, start, end, rcvNxt)
	vassert(sack.NumBlocks >= 1 && sack.NumBlocks <= MaxSACKBlocks, "the scoreboard never holds more than MaxSACKBlocks blocks")
	vassert(!start.LessThan(sack.Blocks[0].Start) && !sack.Blocks[0].End.LessThan(end), "the first block covers the segment that just arrived (RFC 2018 section 4)")
	TrimSACKBlockList(&sack, rcvNxt.Add(seqnum.Size(vnU8("advance")&63)))
	vassert(sack.NumBlocks >= 0 && sack.NumBlocks <= MaxSACKBlocks, "trimming keeps the block count in range")
	vreach("updated")
}
