package tcp

import (
	"github.com/brewlin/net-protocol/pkg/buffer"
	"github.com/brewlin/net-protocol/pkg/seqnum"
	"github.com/brewlin/net-protocol/protocol/header"
)

// ---------- C06: emitted TCP segments (independent decoder) ----------

func vhOnes(a, b uint16) uint16 {
	s := uint32(a) + uint32(b)
	return uint16(s&0xffff) + uint16(s>>16)
}
func vhSum(b []byte, init uint16) uint16 {
	s := init
	i := 0
	for ; i+1 < len(b); i += 2 {
		s = vhOnes(s, uint16(b[i])<<8|uint16(b[i+1]))
	}
	if i < len(b) {
		s = vhOnes(s, uint16(b[i])<<8)
	}
	return s
}

// RFC 793 checksum: pseudo header (src, dst, zero, protocol 6, TCP length) + segment with a zero checksum field
func vhTCPSum(hdr, payload []byte) uint16 {
	l := len(hdr) + len(payload)
	ps := append([]byte{}, []byte(vhLocal)...)
	ps = append(ps, []byte(vhRemote)...)
	ps = append(ps, 0, 6, byte(l>>8), byte(l))
	h := append([]byte{}, hdr...)
	h[16], h[17] = 0, 0
	return ^vhSum(append(append(ps, h...), payload...), 0)
}

// independent walk over TCP options: well-formed kinds/lengths, NOP/EOL padding only
type vhOpts struct {
	ok                bool
	mss, ws           int
	ts                bool
	tsval, tsecr      uint32
	sackPerm          bool
	nsack             int
	sackStart, sackEnd [4]uint32
}

func vhWalkOpts(o []byte) vhOpts {
	r := vhOpts{ok: true, mss: -1, ws: -1}
	i := 0
	for i < len(o) {
		k := o[i]
		if k == 0 {
			for ; i < len(o); i++ {
				if o[i] != 0 {
					r.ok = false
				}
			}
			break
		}
		if k == 1 {
			i++
			continue
		}
		if i+1 >= len(o) {
			r.ok = false
			break
		}
		l := int(o[i+1])
		if l < 2 || i+l > len(o) {
			r.ok = false
			break
		}
		switch k {
		case 2:
			r.ok = r.ok && l == 4
			if l == 4 {
				r.mss = int(vhBE16(o, i+2))
			}
		case 3:
			r.ok = r.ok && l == 3
			if l == 3 {
				r.ws = int(o[i+2])
			}
		case 4:
			r.ok = r.ok && l == 2
			r.sackPerm = true
		case 5:
			r.ok = r.ok && (l-2)%8 == 0 && (l-2)/8 <= 4
			if (l-2)%8 == 0 && (l-2)/8 <= 4 {
				r.nsack = (l - 2) / 8
				for j := 0; j < r.nsack; j++ {
					r.sackStart[j], r.sackEnd[j] = vhBE32(o, i+2+8*j), vhBE32(o, i+6+8*j)
				}
			}
		case 8:
			r.ok = r.ok && l == 10
			if l == 10 {
				r.ts, r.tsval, r.tsecr = true, vhBE32(o, i+2), vhBE32(o, i+6)
			}
		default:
			r.ok = false
		}
		i += l
	}
	return r
}

func (c *vhConn) vhEmitter() {
	e := c.e
	e.rcv = newReceiver(e, seqnum.Value(vnU32("irs")), 1<<16, 0)
	e.snd = newSender(e, seqnum.Value(vnU32("iss")), e.rcv.rcvNxt-1, 1<<16, 1460, 0)
	e.sendTSOk = vhPick("tsok", 2) == 1
	e.recentTS = vnU32("recentTS")
	e.sackPermitted = vhPick("sackp", 2) == 1
	nb := vhPick("nsack", 3)
	for i := 0; i < nb; i++ {
		e.sack.Blocks[i] = header.SACKBlock{Start: seqnum.Value(vnU32("sstart")), End: seqnum.Value(vnU32("send"))}
	}
	e.sack.NumBlocks = nb
	e.id.LocalPort = vnU16("lport")
	e.id.RemotePort = vnU16("rport")
	c.net.Sent = nil
}

func vh_emit_tcp() {
	vclockFreeze()
	c := vhEP(1<<16, 1<<16)
	c.vhEmitter()
	e := c.e
	n := vnChoice("len", 4)
	data := vnBytes("payload", n)
	flags := vnU8("flags")
	seq, ack := seqnum.Value(vnU32("seq")), seqnum.Value(vnU32("ack"))
	wnd := seqnum.Size(vnU32("rcvwnd"))
	var vv buffer.VectorisedView
	if n > 0 {
		vv = buffer.View(data).ToVectorisedView()
	}
	err := e.sendRaw(vv, flags, seq, ack, wnd)
	vassert(err == nil && len(c.net.Sent) == 1, "one segment is handed to the network layer")
	p := c.net.Sent[0]
	h := p.Hdr
	vassert(p.Proto == ProtocolNumber && p.Local == vhLocal && p.Remote == vhRemote && p.TTL == 64, "addressed from the socket's address to its peer with the route's TTL")
	vassert(len(h) >= 20 && len(h) <= 60 && len(h)%4 == 0 && int(h[12]>>4)*4 == len(h) && h[12]&0x0f == 0, "the data offset equals the header length: 20 + options, a multiple of 4, at most 60")
	d := vhDecode(p)
	vassert(d.sport == e.id.LocalPort && d.dport == e.id.RemotePort && d.seq == uint32(seq) && d.ack == uint32(ack) && d.flags == flags, "ports, sequence, acknowledgement and flags are those requested")
	want := wnd
	if want > 0xffff {
		want = 0xffff
	}
	vassert(seqnum.Size(d.wnd) == want, "the window field is the advertised window, saturated at 65535")
	vassert(vhBE16(h, 18) == 0, "urgent pointer zero")
	vassert(len(p.Payload) == n && vhConsistentBytes(p.Payload, data), "the payload is carried unchanged")
	o := vhWalkOpts(d.opts)
	vassert(o.ok, "the options are well-formed and padded with NOP/EOL only")
	vassert(o.ts == e.sendTSOk && vimplies(o.ts, o.tsecr == e.recentTS), "a timestamp option is present iff negotiated and echoes the most recent peer timestamp")
	wantSack := 0
	if e.sackPermitted && flags&flagAck != 0 {
		wantSack = e.sack.NumBlocks
	}
	vassert(o.nsack == wantSack && o.mss == -1 && o.ws == -1 && !o.sackPerm, "SACK blocks appear only on ACKs of SACK-enabled connections; no SYN-only options on established segments")
	for i := 0; i < o.nsack; i++ {
		vassert(o.sackStart[i] == uint32(e.sack.Blocks[i].Start) && o.sackEnd[i] == uint32(e.sack.Blocks[i].End), "SACK block edges are those of the receiver's list")
	}
	vreach("tcp")
}

func vhConsistentBytes(a, b []byte) bool {
	if len(a) != len(b) {
		return false
	}
	var d byte
	for i := range a {
		d |= a[i] ^ b[i]
	}
	return d == 0
}

// checksum with at most 4 symbolic covered bytes per query (window over the fields)
func vh_emit_tcp_cksum() {
	vclockFreeze()
	c := vhEP(1<<16, 1<<16)
	e := c.e
	e.rcv = newReceiver(e, 7, 1<<16, 0)
	e.snd = newSender(e, 9, 7, 1<<16, 1460, 0)
	e.sendTSOk = vhPick("tsok", 2) == 1
	e.recentTS = 0x01020304
	e.tsOffset = 0
	seq, ack := seqnum.Value(0x11223344), seqnum.Value(0x55667788)
	flags := uint8(flagAck | flagPsh)
	wnd := seqnum.Size(0x1234)
	n := []int{0, 3}[vhPick("len", 2)]
	data := make([]byte, n)
	for i := range data {
		data[i] = byte(0xc1 + 7*i)
	}
	switch vhPick("window", 6) {
	case 0:
		seq = seqnum.Value(uint32(vnU16("seqhi"))<<16 | uint32(vnU16("seqlo")))
	case 1:
		ack = seqnum.Value(uint32(vnU16("ackhi"))<<16 | uint32(vnU16("acklo")))
	case 2:
		flags = vnU8("flags")
		wnd = seqnum.Size(vnU16("wnd"))
	case 3:
		e.id.LocalPort, e.id.RemotePort = vnU16("lport"), vnU16("rport")
	case 4:
		copy(data, vnBytes("payload", n))
		flags = vnU8("flags")
	case 5:
		e.recentTS = uint32(vnU16("tshi"))<<16 | uint32(vnU16("tslo"))
	}
	var vv buffer.VectorisedView
	if n > 0 {
		vv = buffer.View(data).ToVectorisedView()
	}
	c.net.Sent = nil
	e.sendRaw(vv, flags, seq, ack, wnd)
	p := c.net.Sent[0]
	vassert(vhBE16(p.Hdr, 16) == vhTCPSum(p.Hdr, p.Payload), "the TCP checksum is the complemented RFC 1071 sum over pseudo header, header and payload")
	vreach("tcp-cksum")
}

// SYN / SYN-ACK emission
func vh_emit_syn() {
	vclockFreeze()
	c := vhEP(1<<16, 1<<16)
	e := c.e
	e.id.LocalPort, e.id.RemotePort = vnU16("lport"), vnU16("rport")
	o := header.TCPSynOptions{MSS: vnU16("mss"), WS: vnChoice("ws", 16) - 1, TS: vnBool("ts"), TSVal: vnU32("tsval"), TSEcr: vnU32("tsecr"), SACKPermitted: vnBool("sackp")}
	flags := uint8(flagSyn)
	if vnBool("synack") {
		flags |= flagAck
	}
	seq, ack := seqnum.Value(vnU32("seq")), seqnum.Value(vnU32("ack"))
	err := sendSynTCP(&e.route, e.id, flags, seq, ack, seqnum.Size(vnU32("rcvwnd")), o)
	vassert(err == nil && len(c.net.Sent) == 1, "one SYN segment is emitted")
	p := c.net.Sent[0]
	h := p.Hdr
	vassert(len(h)%4 == 0 && len(h) <= 60 && int(h[12]>>4)*4 == len(h) && len(p.Payload) == 0, "data offset = header length, multiple of 4, no payload")
	d := vhDecode(p)
	vassert(d.flags == flags && d.seq == uint32(seq) && d.ack == uint32(ack) && d.sport == e.id.LocalPort && d.dport == e.id.RemotePort, "flags, numbers and ports as requested")
	w := vhWalkOpts(d.opts)
	wantMSS := int(o.MSS)
	if o.MSS == 0 {
		wantMSS = int(c.net.Mtu) - 20
	}
	vassert(w.ok && w.mss == wantMSS && w.ws == o.WS && w.ts == o.TS && w.sackPerm == o.SACKPermitted && w.nsack == 0, "the SYN carries exactly the negotiated options (MSS always), well-formed and padded")
	vassert(vimplies(o.TS, w.tsval == o.TSVal && w.tsecr == o.TSEcr), "timestamp values as given")
	vreach("syn")
}
