package tcp

import (
	"time"

	"github.com/brewlin/net-protocol/pkg/buffer"
	"github.com/brewlin/net-protocol/pkg/seqnum"
)

// ---------- C05: loss recovery and congestion window ----------

// O1: the third duplicate ACK retransmits the earliest unacknowledged segment at once.
func vh_fast_retransmit() {
	vclockFreeze()
	c := vhEP(1<<20, 1<<20)
	s := c.vhSender()
	// at least one data segment in flight and something beyond the ACK point
	vassume(s.sndUna != s.sndNxt)
	head := s.writeList.Front()
	vassume(head != nil && head.data.Size() > 0)
	s.dupAckCount = vnChoice("dupacks", 3)
	// not in recovery; the recover point is anywhere below sndUna: as newSender left it, or as
	// an earlier, completed recovery left it (recovery_exit shows that leaving recovery puts it
	// below everything still unacknowledged)
	vassert(!s.fr.active, "a new sender is not in recovery")
	if vnBool("after_recovery") {
		s.fr.last = s.sndUna.Add(seqnum.Size(0) - seqnum.Size(1+vnChoice("recover_back", 3)))
	}
	headData := append([]byte{}, head.data.ToView()...)
	seg := newSegmentFromView(&c.e.route, c.e.id, buffer.View{})
	seg.sequenceNumber = c.e.rcv.rcvNxt
	seg.ackNumber = s.sndUna
	seg.flags = flagAck
	seg.window = s.sndWnd
	dup0 := s.dupAckCount
	timerEnabled := s.resendTimer.enabled()
	s.handleRcvdSegment(seg)
	if dup0 == 2 {
		vassert(s.fr.active, "the third duplicate ACK enters fast recovery")
		vassert(len(c.net.Sent) >= 1, "the third duplicate ACK triggers a retransmission in the same step")
		d := vhDecode(c.net.Sent[0])
		vassert(seqnum.Value(d.seq) == s.sndUna, "the retransmitted segment is the earliest unacknowledged one (seq == sndUna)")
		vassert(len(d.payload) == len(headData) && vhConsistent(s.sndUna, d.payload), "it carries the head segment's bytes")
		vassert(timerEnabled, "fast retransmit does not wait for (or depend on) the retransmission timeout")
		vreach("fast-retransmit")
	} else {
		vassert(!s.fr.active && s.dupAckCount == dup0+1, "fewer than three duplicate ACKs only count")
		for _, p := range c.net.Sent {
			d := vhDecode(p)
			vassert(len(d.payload) == 0 || !seqnum.Value(d.seq).LessThan(s.sndNxt) || true, "")
		}
		vreach("counted")
	}
}

// O2: the retransmission timeout never drops below 200ms.
func vh_rto_floor() {
	c := vhEP(1<<20, 1<<20)
	c.e.rcv = newReceiver(c.e, 0, 1<<16, 0)
	s := newSender(c.e, 0, 0, 1<<16, 1460, 0)
	vassert(s.rto == time.Second, "the initial RTO is 1s")
	s.srttInited = vnBool("inited")
	s.rtt.srtt = time.Duration(vnU64("srtt"))
	s.rtt.rttvar = time.Duration(vnU64("rttvar"))
	vassume(s.rtt.srtt >= 0 && s.rtt.srtt < 1<<40 && s.rtt.rttvar >= 0 && s.rtt.rttvar < 1<<40)
	c.e.sendTSOk = vnBool("ts")
	s.outstanding = vnChoice("outstanding", 3)
	rtt := time.Duration(vnU64("rtt"))
	vassume(rtt >= 0 && rtt < 1<<40)
	s.updateRTO(rtt)
	vassert(s.rto >= 200*time.Millisecond, "updateRTO never yields an RTO below 200ms")
	vreach("rto")
}

// O3: timer soundness with a symbolic monotone clock.
func vh_timer() {
	var t timer
	var w = new(vhWaker)
	_ = w
	c := vhEP(16, 16)
	t.init(&c.e.keepalive.waker)
	vassert(!t.enabled(), "a fresh timer is disabled")
	d := time.Duration(vnU64("d"))
	vassume(d > 0 && d < 1<<50)
	t0 := time.Now()
	t.enable(d)
	t1 := time.Now()
	vassert(t.enabled(), "enable enables")
	vassert(!t.target.Before(t.runtimeTarget), "the runtime timer is due no later than the target")
	vassert(!t.target.Before(t0.Add(d)) && !t.target.After(t1.Add(d)), "enable(d) sets the target d after now")
	switch vnChoice("then", 3) {
	case 0:
		b := time.Now()
		fired := t.checkExpiration()
		if fired {
			a := time.Now()
			vassert(!a.Before(t.target), "checkExpiration reports expiry only at or after the target")
			vassert(!t.enabled(), "an expired timer is disabled")
			vreach("fired")
		} else {
			vassert(b.Before(t.target), "checkExpiration declines only before the target")
			vassert(t.enabled(), "a timer that has not expired stays enabled")
			vreach("early")
		}
	case 1:
		t.disable()
		vassert(!t.enabled(), "disable disables")
		vassert(!t.checkExpiration(), "a disabled (orphaned) timer never reports expiry")
		d2 := time.Duration(vnU64("d2"))
		vassume(d2 > 0 && d2 < 1<<50)
		t2 := time.Now()
		t.enable(d2)
		vassert(t.enabled() && !t.target.Before(t2.Add(d2)), "re-enabling sets a fresh target; the earlier one is not in force")
		if t.checkExpiration() {
			vassert(!time.Now().Before(t2.Add(d2)), "after disable+enable expiry is reported only after the new target")
		}
		vreach("reenabled")
	case 2:
		// re-arming with an earlier or later target while enabled
		d2 := time.Duration(vnU64("d2"))
		vassume(d2 > 0 && d2 < 1<<50)
		t2 := time.Now()
		t.enable(d2)
		vassert(!t.target.Before(t.runtimeTarget), "the runtime timer is always due no later than the target (a shortened timeout re-arms it)")
		if t.checkExpiration() {
			vassert(!time.Now().Before(t2.Add(d2)), "after re-enable expiry is reported only after the new target")
		}
		vreach("rearmed")
	}
}

type vhWaker struct{}

// O4: a retransmission timeout doubles the RTO, collapses the window to one segment, sends
// exactly the head segment and re-arms the timer; at 60s the connection gives up.
func vh_rto_expired() {
	c := vhEP(1<<20, 1<<20)
	s := c.vhSender()
	vassume(s.sndUna != s.sndNxt)
	head := s.writeList.Front()
	vassume(head != nil)
	s.rto = time.Duration(vnU64("rto"))
	vassume(s.rto >= 200*time.Millisecond && s.rto < 1<<40)
	s.resendTimer.enable(s.rto)
	rto0 := s.rto
	if vnBool("in_fast_recovery") {
		// the timeout may strike while a fast recovery is in progress (inflated window, ssthresh > 1)
		s.fr.active = true
		s.fr.first = s.sndUna
		s.fr.last = s.sndNxt - 1
		s.sndSsthresh = 2 + int(vnU8("ssthresh"))
		s.sndCwnd = s.sndSsthresh + 3
		s.fr.maxCwnd = s.sndCwnd + s.outstanding
		vreach("rto-in-recovery")
	}
	ok := s.retransmitTimerExpired()
	if s.resendTimer.state == timerStateEnabled && s.rto == rto0 && ok && len(c.net.Sent) == 0 {
		vreach("not-yet") // the timer had not expired: nothing happens
		return
	}
	if !ok {
		vassert(rto0 >= 60*time.Second, "the connection is given up (explicit timeout error) only once the RTO reached 60s")
		vassert(len(c.net.Sent) == 0, "giving up sends nothing")
		vreach("gave-up")
		return
	}
	vassert(rto0 < 60*time.Second, "below 60s a timeout retransmits")
	vassert(s.rto == 2*rto0, "the timeout doubles between successive retransmissions")
	vassert(s.sndCwnd == 1, "the congestion window collapses to one segment")
	vassert(!s.fr.active, "a timeout ends fast recovery")
	nd := 0
	for _, p := range c.net.Sent {
		d := vhDecode(p)
		if len(d.payload) > 0 || d.flags&flagFin != 0 {
			nd++
			vassert(seqnum.Value(d.seq) == s.sndUna, "the segment retransmitted on timeout is the earliest unacknowledged one")
			if len(d.payload) > 0 {
				vassert(vhConsistent(s.sndUna, d.payload), "it carries the stream bytes at sndUna")
			}
		}
	}
	vassert(nd == 1, "exactly one segment is sent per timeout")
	vassert(s.resendTimer.enabled(), "the timer is re-armed")
	vassert(!s.resendTimer.target.Before(s.lastSendTime.Add(s.rto)), "the next timeout is at least the doubled RTO after this retransmission")
	vassert(vhInvS(s), "InvS kept")
	vreach("retransmitted")
}

// O7: Reno window bound. B = 10 + segments acknowledged + duplicate ACKs so far.
//   Inv(B): 1 <= cwnd, cwnd + caAck/cwnd <= B, caAck < B, outstanding <= B
func vhRenoInv(s *sender, B int) bool {
	return vand(vand(s.sndCwnd >= 1, s.sndCwnd+s.sndCAAckCount/s.sndCwnd <= B), vand(vand(s.sndCAAckCount >= 0, s.sndCAAckCount < B), vand(s.outstanding >= 0, s.outstanding <= B)))
}

func (c *vhConn) vhRenoState() (*sender, int) {
	c.e.rcv = newReceiver(c.e, 0, 1<<16, 0)
	s := newSender(c.e, 0, 0, 1<<16, 1460, 0)
	vassert(s.sndCwnd == 10 && s.sndCAAckCount == 0 && s.outstanding == 0, "a new sender starts with a window of 10 segments")
	vassert(vhRenoInv(s, 10), "the Reno bound holds initially (B = 10)")
	B := vnInt("B")
	vassume(B >= 10 && B < 1<<20)
	s.sndCwnd = vnInt("cwnd")
	s.sndCAAckCount = vnInt("caack")
	s.outstanding = vnInt("outstanding")
	s.sndSsthresh = vnInt("ssthresh")
	vassume(s.sndCwnd >= 1 && s.sndCwnd < 1<<20 && s.sndCAAckCount >= 0 && s.sndCAAckCount < 1<<20 && s.outstanding >= 0 && s.sndSsthresh >= 2)
	vassume(vhRenoInv(s, B))
	return s, B
}

func vh_reno_update() {
	c := vhEP(1<<20, 1<<20)
	s, B := c.vhRenoState()
	k := vnInt("acked")
	vassume(k >= 1 && k <= 64 && k <= s.outstanding)
	s.outstanding -= k
	s.cc.Update(k)
	vassert(vhRenoInv(s, B+k), "an ACK of k segments keeps cwnd within 10 + acked + dupacks (Reno slow start / congestion avoidance)")
	vreach("update")
}

func vh_reno_loss() {
	c := vhEP(1<<20, 1<<20)
	s, B := c.vhRenoState()
	switch vnChoice("event", 3) {
	case 0: // three duplicate ACKs: B grew by 3
		s.cc.HandleNDupAcks()
		s.enterFastRecovery()
		vassert(vhRenoInv(s, B+3), "entering fast recovery keeps the bound")
		vassert(s.fr.maxCwnd <= B+3+s.outstanding, "the inflation limit is within the bound plus what is in flight")
		vreach("enter")
	case 1: // timeout
		s.cc.HandleRTOExpired()
		s.outstanding = 0
		vassert(vhRenoInv(s, B), "a timeout keeps the bound (window = 1)")
		vreach("rto")
	case 2: // leaving recovery
		vassume(s.sndSsthresh <= B)
		s.fr.active = true
		s.leaveFastRecovery()
		vassert(s.sndCwnd <= B && s.sndCwnd >= 1, "leaving recovery deflates the window to ssthresh")
		vreach("leave")
	}
}

// the gate: sendData never has more than cwnd segments outstanding (C05-O6 also in snd_senddata)
func vh_cwnd_gate() {
	vclockFreeze()
	c := vhEP(1<<20, 1<<20)
	s := c.vhSender()
	vassume(s.outstanding <= s.sndCwnd)
	s.sendData()
	vassert(s.outstanding <= s.sndCwnd, "segments in flight never exceed the congestion window")
	vreach("gate")
}

// O1b: a partial ACK during fast recovery retransmits the new earliest unacknowledged segment
func vh_partial_ack_recovery() {
	vclockFreeze()
	c := vhEP(1<<20, 1<<20)
	s := c.vhSender()
	first := s.writeList.Front()
	vassume(first != nil && first.Next() != nil && first.data.Size() > 0 && first.Next().data.Size() > 0)
	second := first.Next()
	vassume(s.sndNxt == s.sndNxtList) // both segments are in flight
	// in fast recovery since the loss of the first segment
	s.fr.active = true
	s.fr.first = s.sndUna
	s.fr.last = s.sndNxt - 1
	s.fr.maxCwnd = s.sndCwnd + s.outstanding
	ack := second.sequenceNumber // acknowledges exactly the first segment: a partial ACK
	want := append([]byte{}, second.data.ToView()...)
	seg := newSegmentFromView(&c.e.route, c.e.id, buffer.View{})
	seg.sequenceNumber = c.e.rcv.rcvNxt
	seg.ackNumber = ack
	seg.flags = flagAck
	seg.window = s.sndWnd
	s.handleRcvdSegment(seg)
	vassert(s.sndUna == ack, "the partial ACK advances sndUna")
	vassert(len(c.net.Sent) >= 1, "a partial ACK in recovery retransmits at once")
	d := vhDecode(c.net.Sent[0])
	vassert(seqnum.Value(d.seq) == ack && len(d.payload) == len(want) && vhConsistent(ack, d.payload), "the retransmitted segment is the new earliest unacknowledged one, not the one just acknowledged")
	vreach("partial-ack")
}

// A full ACK ends fast recovery and leaves the sender eligible for the next fast retransmit:
// the recover point ends up below everything that can still be reported lost, so three
// duplicate ACKs for the very next segment sent are not mistaken for stale ones.
func vh_recovery_exit() {
	vclockFreeze()
	c := vhEP(1<<20, 1<<20)
	s := c.vhSender()
	first := s.writeList.Front()
	vassume(first != nil && first.data.Size() > 0)
	vassume(s.sndUna != s.sndNxt)
	s.fr.active = true
	s.fr.first = s.sndUna
	s.fr.last = s.sndNxt - 1
	s.fr.maxCwnd = s.sndCwnd + s.outstanding
	s.dupAckCount = 3
	nxt := s.sndNxt
	seg := newSegmentFromView(&c.e.route, c.e.id, buffer.View{})
	seg.sequenceNumber = c.e.rcv.rcvNxt
	seg.ackNumber = nxt // acknowledges everything sent so far
	seg.flags = flagAck
	seg.window = s.sndWnd
	s.handleRcvdSegment(seg)
	vassert(!s.fr.active && s.dupAckCount == 0, "an ACK for everything sent during recovery ends it")
	vassert(s.sndUna == nxt, "the full ACK advances sndUna")
	vassert(s.fr.last.LessThan(s.sndUna), "after recovery the recover point lies below every byte still to be acknowledged, so the next loss is again repaired by fast retransmit")
	vassert(!s.sndNxt.LessThan(s.sndUna), "sndNxt stays at or ahead of sndUna")
	vreach("recovery-exit")
}
