package tcp

import (
	"math"
	"time"

	"github.com/brewlin/net-protocol/pkg/buffer"
	"github.com/brewlin/net-protocol/pkg/seqnum"
	"github.com/brewlin/net-protocol/pkg/waiter"
	tcpip "github.com/brewlin/net-protocol/protocol"
	"github.com/brewlin/net-protocol/protocol/header"
	"github.com/brewlin/net-protocol/stack"
)

// Shared scaffolding for the TCP obligations (C01-C05, C03, C06, C07).

const (
	vhLocal  = tcpip.Address("\x0a\x00\x00\x01")
	vhRemote = tcpip.Address("\x0a\x00\x00\x02")
)

type vhConn struct {
	e   *endpoint
	net *stack.VHNet
	nic *stack.NIC
	st  *stack.Stack
}

// vhEP builds a connected endpoint over a capture network endpoint. Receiver and sender are
// created by the real constructors from symbolic initial sequence numbers; callers then
// overwrite fields to obtain an arbitrary pre-state.
func vhEP(rcvBuf, sndBuf int) *vhConn {
	s := stack.VHStack()
	link := &stack.VHLink{Mtu: 1500, Addr: tcpip.LinkAddress("\x02\x00\x00\x00\x00\x01")}
	nic := stack.VHNIC(s, 1, link)
	net := &stack.VHNet{Mtu: uint32(vparam("mtu", 1480)), Ttl: 64, Nic: 1}
	e := &endpoint{
		stack:       s,
		netProto:    header.IPv4ProtocolNumber,
		waiterQueue: &waiter.Queue{},
		rcvBufSize:  rcvBuf,
		sndBufSize:  sndBuf,
		sndMTU:      int(math.MaxInt32),
		state:       stateConnected,
		keepalive:   keepalive{idle: 2 * time.Hour, interval: 75 * time.Second, count: 9},
	}
	e.id = stack.TransportEndpointID{LocalPort: 80, LocalAddress: vhLocal, RemotePort: 1234, RemoteAddress: vhRemote}
	e.route = stack.VHRoute(nic, net, header.IPv4ProtocolNumber, vhLocal, vhRemote, nil)
	e.keepalive.timer.init(&e.keepalive.waker)
	e.workMu.Init()
	e.segmentQueue.setLimit(2 * rcvBuf)
	return &vhConn{e: e, net: net, nic: nic, st: s}
}

// stream is the abstract byte stream of one direction: stream(seq) is the byte carried at
// sequence number seq.
func vhStream(seq seqnum.Value) byte { return vufU8("stream", uint64(uint32(seq))) }

// vhData returns n stream-consistent bytes starting at seq.
func vhData(seq seqnum.Value, n int) []byte {
	b := make([]byte, n)
	for i := range b {
		b[i] = vhStream(seq.Add(seqnum.Size(i)))
	}
	return b
}

// vhConsistent reports (branch-free) whether data is stream[seq, seq+len).
func vhConsistent(seq seqnum.Value, data []byte) bool {
	var d byte
	for i := range data {
		d |= data[i] ^ vhStream(seq.Add(seqnum.Size(i)))
	}
	return d == 0
}

// vhSeg builds a received (already parsed) segment with stream-consistent payload of n
// bytes in 1 or 2 views.
func (c *vhConn) vhSeg(seq seqnum.Value, n int, split int, flags uint8) *segment {
	data := vhData(seq, n)
	var vv buffer.VectorisedView
	if split > 0 && split < n {
		vv = buffer.NewVectorisedView(n, []buffer.View{buffer.View(data[:split]), buffer.View(data[split:])})
	} else {
		vv = buffer.NewVectorisedView(n, []buffer.View{buffer.View(data)})
	}
	s := newSegment(&c.e.route, c.e.id, vv)
	s.sequenceNumber = seq
	s.flags = flags
	return s
}

func vhFlatSeg(s *segment) []byte {
	out := []byte{}
	vs := s.data.Views()
	for i := s.viewToDeliver; i < len(vs); i++ {
		out = append(out, vs[i]...)
	}
	return out
}

// vhRcvListBytes concatenates everything queued for the reader.
func vhRcvListBytes(e *endpoint) []byte {
	out := []byte{}
	for s := e.rcvList.Front(); s != nil; s = s.Next() {
		out = append(out, vhFlatSeg(s)...)
	}
	return out
}

func vhBE16(b []byte, o int) uint16 { return uint16(b[o])<<8 | uint16(b[o+1]) }
func vhBE32(b []byte, o int) uint32 {
	return uint32(b[o])<<24 | uint32(b[o+1])<<16 | uint32(b[o+2])<<8 | uint32(b[o+3])
}

// decoded view of a captured TCP packet (independent of protocol/header)
type vhTCPPkt struct {
	sport, dport uint16
	seq, ack     uint32
	doff         int
	flags        uint8
	wnd          uint16
	opts         []byte
	payload      []byte
}

func vhDecode(p stack.VHPacket) vhTCPPkt {
	h := p.Hdr
	d := vhTCPPkt{sport: vhBE16(h, 0), dport: vhBE16(h, 2), seq: vhBE32(h, 4), ack: vhBE32(h, 8), doff: int(h[12]>>4) * 4, flags: h[13], wnd: vhBE16(h, 14)}
	d.opts = h[20:]
	d.payload = p.Payload
	return d
}

// vhPick is vnChoice unless the obligation fixes the choice through a spec parameter (used
// to split one lemma into parallel obligations).
func vhPick(name string, n int) int {
	if k := vparam(name, -1); k >= 0 {
		return k
	}
	return vnChoice(name, n)
}
