package ports

import (
	"math/rand"

	tcpip "github.com/brewlin/net-protocol/protocol"
)

// C10: port reservations. One-step lemmas on PortManager from an arbitrary pre-state that
// satisfies InvP, compared with a ghost list of reservations (the oracle never touches the map).

type vhRes struct {
	net  tcpip.NetworkProtocolNumber
	tr   tcpip.TransportProtocolNumber
	port uint16
	addr tcpip.Address
}

func vhAddr(name string) tcpip.Address {
	if vnChoice(name+".kind", 2) == 0 {
		return anyIPAddress
	}
	return tcpip.Address(vnString(name, 4))
}

// vhPM builds an arbitrary PortManager with <= maxDesc descriptors, each with the wildcard
// alone or 1..2 distinct specific addresses (InvP), and the matching ghost list.
func vhPM(maxDesc int) (*PortManager, []vhRes) {
	pm := NewPortManager()
	var ghost []vhRes
	nd := vnChoice("ndesc", maxDesc+1)
	for d := 0; d < nd; d++ {
		desc := portDescriptor{tcpip.NetworkProtocolNumber(vnU32("net")), tcpip.TransportProtocolNumber(vnU32("tr")), vnU16("port")}
		for _, g := range ghost {
			vassume(portDescriptor{g.net, g.tr, g.port} != desc)
		}
		m := make(bindAddresses)
		a1 := vhAddr("addr")
		m[a1] = struct{}{}
		ghost = append(ghost, vhRes{desc.network, desc.transport, desc.port, a1})
		if a1 != anyIPAddress && vnChoice("second", 2) == 1 {
			a2 := tcpip.Address(vnString("addr2", 4))
			vassume(a2 != a1)
			m[a2] = struct{}{}
			ghost = append(ghost, vhRes{desc.network, desc.transport, desc.port, a2})
		}
		pm.allocatedPorts[desc] = m
	}
	return pm, ghost
}

// conflict per the property: same protocol pair and port, and either is the wildcard or both
// are the same address.
func vhConflicts(g vhRes, net tcpip.NetworkProtocolNumber, tr tcpip.TransportProtocolNumber, port uint16, addr tcpip.Address) bool {
	same := vand(vand(g.net == net, g.tr == tr), g.port == port)
	return vand(same, vor(vor(g.addr == anyIPAddress, addr == anyIPAddress), g.addr == addr))
}

func vhAnyConflict(ghost []vhRes, nets []tcpip.NetworkProtocolNumber, tr tcpip.TransportProtocolNumber, port uint16, addr tcpip.Address) bool {
	c := false
	for _, g := range ghost {
		for _, n := range nets {
			c = vor(c, vhConflicts(g, n, tr, port, addr))
		}
	}
	return c
}

func vhHas(pm *PortManager, r vhRes) bool {
	m, ok := pm.allocatedPorts[portDescriptor{r.net, r.tr, r.port}]
	if !ok {
		return false
	}
	_, ok = m[r.addr]
	return ok
}

func vhInGhost(ghost []vhRes, r vhRes) bool {
	c := false
	for _, g := range ghost {
		c = vor(c, vand(vand(g.net == r.net, g.tr == r.tr), vand(g.port == r.port, g.addr == r.addr)))
	}
	return c
}

// InvP on the real map.
func vhInvP(pm *PortManager) bool {
	for _, m := range pm.allocatedPorts {
		if len(m) == 0 {
			return false
		}
		if _, ok := m[anyIPAddress]; ok && len(m) != 1 {
			return false
		}
	}
	return true
}

func vhNets() []tcpip.NetworkProtocolNumber {
	n := 1 + vnChoice("nnets", 2)
	nets := make([]tcpip.NetworkProtocolNumber, n)
	for i := range nets {
		nets[i] = tcpip.NetworkProtocolNumber(vnU32("reqnet"))
	}
	return nets
}

func vhProbe() vhRes {
	return vhRes{tcpip.NetworkProtocolNumber(vnU32("pnet")), tcpip.TransportProtocolNumber(vnU32("ptr")), vnU16("pport"), vhAddr("paddr")}
}

func vhRequested(nets []tcpip.NetworkProtocolNumber, tr tcpip.TransportProtocolNumber, port uint16, addr tcpip.Address, p vhRes) bool {
	c := false
	for _, n := range nets {
		c = vor(c, vand(vand(p.net == n, p.tr == tr), vand(p.port == port, p.addr == addr)))
	}
	return c
}

func vh_reserve() {
	pm, ghost := vhPM(vparam("desc", 2))
	vassert(vhInvP(pm), "pre-state satisfies InvP")
	nets := vhNets()
	tr := tcpip.TransportProtocolNumber(vnU32("reqtr"))
	port := vnU16("reqport")
	vassume(port != 0)
	addr := vhAddr("reqaddr")
	probe := vhProbe()
	before := vhInGhost(ghost, probe)
	conflict := vhAnyConflict(ghost, nets, tr, port, addr)
	got, err := pm.ReservePort(nets, tr, addr, port)
	if err == nil {
		vassert(!conflict, "a reservation that conflicts with an existing one never succeeds")
		vassert(got == port, "ReservePort returns the requested port")
		vassert(vhHas(pm, probe) == vor(before, vhRequested(nets, tr, port, addr, probe)), "ReservePort adds exactly the requested entries")
		vreach("reserve-ok")
	} else {
		vassert(conflict, "ReservePort fails only on a conflict")
		vassert(err == tcpip.ErrPortInUse && got == 0, "a refused reservation reports ErrPortInUse")
		vassert(vhHas(pm, probe) == before, "a refused reservation changes nothing")
		vreach("reserve-refused")
	}
	vassert(vhInvP(pm), "ReservePort keeps InvP")
	vassert(pm.mu.TryLock(), "ReservePort releases its lock")
}

func vh_release() {
	pm, ghost := vhPM(vparam("desc", 2))
	nets := vhNets()
	tr := tcpip.TransportProtocolNumber(vnU32("reqtr"))
	port := vnU16("reqport")
	addr := vhAddr("reqaddr")
	probe := vhProbe()
	before := vhInGhost(ghost, probe)
	pm.ReleasePort(nets, tr, addr, port)
	vassert(vhHas(pm, probe) == vand(before, !vhRequested(nets, tr, port, addr, probe)), "ReleasePort removes exactly the released entries")
	vassert(vhInvP(pm), "ReleasePort keeps InvP")
	// released port is available again (for the same request)
	if len(nets) == 1 && vhInGhost(ghost, vhRes{nets[0], tr, port, addr}) {
		only := true
		for _, g := range ghost {
			if g.net == nets[0] && g.tr == tr && g.port == port && g.addr != addr {
				only = false
			}
		}
		if only {
			vassert(pm.IsPortAvailable(nets, tr, addr, port), "a released reservation becomes available again")
			vreach("release-available")
		}
	}
	vreach("release")
}

func vh_available() {
	pm, ghost := vhPM(vparam("desc", 2))
	nets := vhNets()
	tr := tcpip.TransportProtocolNumber(vnU32("reqtr"))
	port := vnU16("reqport")
	addr := vhAddr("reqaddr")
	probe := vhProbe()
	before := vhInGhost(ghost, probe)
	av := pm.IsPortAvailable(nets, tr, addr, port)
	vassert(av == !vhAnyConflict(ghost, nets, tr, port, addr), "IsPortAvailable iff no conflicting reservation")
	vassert(vhHas(pm, probe) == before, "IsPortAvailable changes nothing")
	vreach("available")
}

// two requests that conflict never both succeed (from an arbitrary state)
func vh_exclusive() {
	pm, _ := vhPM(vparam("desc", 1))
	tr := tcpip.TransportProtocolNumber(vnU32("reqtr"))
	port := vnU16("reqport")
	vassume(port != 0)
	n1 := []tcpip.NetworkProtocolNumber{tcpip.NetworkProtocolNumber(vnU32("n1"))}
	n2 := vhNets()
	a1, a2 := vhAddr("a1"), vhAddr("a2")
	_, e1 := pm.ReservePort(n1, tr, a1, port)
	_, e2 := pm.ReservePort(n2, tr, a2, port)
	wouldConflict := false
	for _, n := range n2 {
		wouldConflict = vor(wouldConflict, vand(n == n1[0], vor(vor(a1 == anyIPAddress, a2 == anyIPAddress), a1 == a2)))
	}
	if wouldConflict {
		vassert(e1 != nil || e2 != nil, "two conflicting reservations never both succeed")
		vreach("exclusive")
	}
}

func vh_new() {
	pm := NewPortManager()
	vassert(vhInvP(pm) && len(pm.allocatedPorts) == 0, "NewPortManager establishes InvP (empty)")
	vreach("new")
}

// ---- ephemeral port search (loop cut on PickEphemeralPort's for loop) ----

const vhCount = 65535 - FirstEphemeral + 1

func vinv_pick(i uint16) bool { return uint32(i) <= vhCount }

func vstep_pick(i uint16, i_next uint16) bool { return i_next == i+1 }

// (a) every tested port is in [16000,65535]; (b) a returned port was accepted by testPort;
// errors of testPort are passed through; the loop variable advances by one per iteration.
func vh_pick_step() {
	pm := NewPortManager()
	tested := false
	var last uint16
	p, err := pm.PickEphemeralPort(func(port uint16) (bool, *tcpip.Error) {
		vassert(port >= FirstEphemeral, "every tested port is in [16000,65535]")
		tested = true
		last = port
		if vufBool("testerr", uint64(port)) {
			return false, tcpip.ErrNoRoute
		}
		return vufBool("free", uint64(port)), nil
	})
	if err == nil {
		vassert(p >= FirstEphemeral, "the returned port is in [16000,65535]")
		vassert(vufBool("free", uint64(p)) && !vufBool("testerr", uint64(p)), "the returned port was accepted by the tester")
		vreach("pick-ok")
	} else if err == tcpip.ErrNoRoute {
		vassert(tested && vufBool("testerr", uint64(last)) && p == 0, "a tester error is passed through")
		vreach("pick-err")
	} else {
		vassert(err == tcpip.ErrNoPortAvailable && p == 0, "otherwise ErrNoPortAvailable")
		vreach("pick-none")
	}
}

var vhIstar uint16

func vinv_istar(i uint16) bool { return i == vhIstar }

// (c) coverage lemma: for every random offset and every port p in [16000,65535] the
// iteration i* = (p-16000-offset) mod 49536 is inside the loop bound and tests exactly p.
// Hence ErrNoPortAvailable is returned only if testPort refused every port of the range.
func vh_pick_coverage() {
	pm := NewPortManager()
	p := vnU16("p")
	vassume(p >= FirstEphemeral)
	// the random offset is an arbitrary value of its contract range
	offset := vnU32("offset")
	vassume(offset < vhCount)
	istar := (uint32(p) - FirstEphemeral + vhCount - offset) % vhCount
	if vcutActive() {
		vrandPush(offset)
		vhIstar = uint16(istar)
	} else {
		vhSeedRand(offset) // native replay: make math/rand produce this offset
	}
	calls := 0
	_, err := pm.PickEphemeralPort(func(port uint16) (bool, *tcpip.Error) {
		if vcutActive() || uint32(calls) == istar {
			vassert(port == p, "iteration i* tests port p (coverage of the ephemeral range)")
			vreach("coverage")
		}
		calls++
		return false, nil
	})
	if vcutActive() {
		vassert(err == nil, "iteration i* is within the loop bound")
	}
}

// (d) base case of the coverage argument: the search starts AT the random offset (iteration 0
// tests port 16000+offset); together with "i advances by one" (pick_step) and "iteration i*
// tests p" (pick_coverage) every port of the range is tested before giving up.
func vh_pick_first() {
	pm := NewPortManager()
	offset := vnU32("offset")
	vassume(offset < vhCount)
	if vsymbolic() {
		vrandPush(offset)
	} else {
		vhSeedRand(offset)
	}
	calls := 0
	var first uint16
	pm.PickEphemeralPort(func(port uint16) (bool, *tcpip.Error) {
		if calls == 0 {
			first = port
		}
		calls++
		return true, nil // accept at once: only the first iteration runs
	})
	vassert(calls == 1 && uint32(first) == FirstEphemeral+offset, "the first port tested is the one at the random offset (no candidate is skipped)")
	vreach("first")
}

// vhSeedRand searches a math/rand seed whose first Int31n(count) is the wanted offset
// (native replay only; the executor never runs it).
func vhSeedRand(offset uint32) {
	for s := int64(1); s < 1<<24; s++ {
		rand.Seed(s)
		if uint32(rand.Int31n(vhCount)) == offset {
			rand.Seed(s)
			return
		}
	}
	panic("VREPLAY-ASSUME-FAILED: no seed found")
}

// (e) the ephemeral path of ReservePort itself (port 0): from an arbitrary state the port it
// returns is in range, was free for the request, is recorded for every requested network under
// the requested address, and nothing else changes. The pre-state holds at most two
// descriptors, so at most two candidates can be refused and the real search loop is unrolled.
func vh_reserve_ephemeral() {
	pm, ghost := vhPM(vparam("desc", 2))
	nets := vhNets()
	tr := tcpip.TransportProtocolNumber(vnU32("reqtr"))
	addr := vhAddr("reqaddr")
	probe := vhProbe()
	before := vhInGhost(ghost, probe)
	offset := vnU32("offset")
	vassume(offset < vhCount)
	if vsymbolic() {
		vrandPush(offset)
	} else {
		vhSeedRand(offset)
	}
	got, err := pm.ReservePort(nets, tr, addr, 0)
	vassert(err == nil, "an ephemeral request succeeds while free ports exist")
	vassert(got >= FirstEphemeral, "the ephemeral port is in [16000,65535]")
	vassert(!vhAnyConflict(ghost, nets, tr, got, addr), "the ephemeral port returned was free for this request")
	for _, n := range nets {
		vassert(vhHas(pm, vhRes{n, tr, got, addr}), "the returned ephemeral port is recorded as reserved for every requested network")
	}
	vassert(vhHas(pm, probe) == vor(before, vhRequested(nets, tr, got, addr, probe)), "an ephemeral reservation adds exactly the returned port's entries")
	vassert(!pm.IsPortAvailable(nets, tr, addr, got), "the returned port is no longer available to an identical request")
	_, err2 := pm.ReservePort(nets, tr, addr, got)
	vassert(err2 == tcpip.ErrPortInUse, "an explicit reservation of the port just handed out is refused")
	vassert(vhInvP(pm), "ReservePort keeps InvP")
	vassert(pm.mu.TryLock(), "ReservePort releases its lock")
	vreach("ephemeral")
}
